"""F1 (C17/C07) on real threads, no explorer: KeyboardInterrupt reaches the calling
thread while worker_pool is still creating workers and the first worker already
executes a call.  Exits 1 if run hangs / keeps starting calls, 0 otherwise.

usage: PYTHONPATH=<repo>/src /venv/bin/python f1_ctrl_c_in_pool_creation.py
"""
import faulthandler
import os
import sys
import threading
import time

import uberjob
import uberjob._execution.run_function_on_graph as rfg

started = []
first_running = threading.Event()
release = threading.Event()


def work(i):
    started.append(i)
    first_running.set()
    release.wait(5)
    return i


plan = uberjob.Plan()
calls = [plan.call(work, i) for i in range(6)]
fired = []
pool_code = rfg.worker_pool.__wrapped__.__code__


def tracer(frame, event, arg):
    if frame.f_code is pool_code:
        def local(frame, event, arg):
            # a line of the creation loop, reached after the first worker is inside a call:
            # this is where CPython would raise a pending SIGINT
            if event == "line" and not fired and first_running.wait(0) :
                fired.append(frame.f_lineno)
                raise KeyboardInterrupt()
            return local
        return local
    return None


class SlowStart(threading.Thread):
    """Make thread creation slow enough that the first worker is in its call before the loop continues."""

    def start(self):
        super().start()
        first_running.wait(2)


result = {}


def main():
    rfg.threading = type(sys)("threading_proxy")
    rfg.threading.__dict__.update(threading.__dict__)
    rfg.threading.Thread = SlowStart
    sys.settrace(tracer)
    try:
        uberjob.run(plan, output=calls, max_workers=3, progress=None)
        result["out"] = "returned"
    except KeyboardInterrupt:
        result["out"] = "KeyboardInterrupt"
    except BaseException as e:  # noqa
        result["out"] = repr(e)
    finally:
        sys.settrace(None)


t = threading.Thread(target=main, daemon=True)
t.start()
time.sleep(1.0)
n_at_interrupt = len(started)
release.set()
t.join(6)
problems = []
if not fired:
    print("interrupt was never injected (harness problem)")
    sys.exit(2)
if t.is_alive():
    problems.append("run did not return within 6 s after the interrupt (hang)")
elif result.get("out") != "KeyboardInterrupt":
    problems.append(f"run ended with {result.get('out')} instead of KeyboardInterrupt")
if len(started) > n_at_interrupt + 1:
    problems.append(f"{len(started) - n_at_interrupt} further calls were started after the interrupt")
time.sleep(0.2)
alive = [th.name for th in threading.enumerate() if th is not threading.main_thread() and th is not t]
if alive:
    problems.append(f"threads still alive: {alive}")
if problems:
    print("F1 manifests (interrupt injected at line %s of worker_pool):" % fired[0])
    for p in problems:
        print("  -", p)
    os._exit(1)
print("ok: interrupt at line %s handled: %s, calls started %s" % (fired[0], result["out"], started))
os._exit(0)
