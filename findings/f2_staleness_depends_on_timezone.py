"""F2 (C18): the stale decision depends on the process time zone and on naive/aware form.

Real code, bundled JsonFileStore + os.utime, no harness.  Run under TZ=America/New_York:
 (a) an aware fresh_time one hour BEFORE both files' mtimes makes the up-to-date downstream value
     look stale (aware -> naive UTC, file mtimes -> naive local: 4-5 h apart);
 (b) in the repeated hour of the 2021-11-07 fall-back an upstream file written 20 minutes AFTER the
     downstream file (01:10 EST vs 01:50 EDT) compares as older, so the downstream value is not rebuilt.
exit 1 = defect present, exit 0 = fixed.
"""
import datetime as dt
import os
import sys
import tempfile
import time

os.environ["TZ"] = "America/New_York"
time.tzset()

import uberjob  # noqa: E402
from uberjob.stores import JsonFileStore  # noqa: E402


def scenario(t_up, t_down, fresh):
    with tempfile.TemporaryDirectory() as d:
        pu, pd = os.path.join(d, "u.json"), os.path.join(d, "d.json")
        for p, t, v in ((pu, t_up, "1"), (pd, t_down, "0")):
            with open(p, "w") as f:
                f.write(v)
            os.utime(p, (t, t))
        plan, reg = uberjob.Plan(), uberjob.Registry()
        u = reg.source(plan, JsonFileStore(pu))
        down = plan.call(lambda x: x + 1, u)
        reg.add(down, JsonFileStore(pd))
        uberjob.run(plan, registry=reg, fresh_time=fresh, progress=None)
        return open(pd).read().strip() == "2"


bad = 0
T = int(dt.datetime(2021, 11, 7, 6, 0, tzinfo=dt.timezone.utc).timestamp())  # the fall-back instant
# (a) both files written at T+1day (downstream after upstream); fresh_time = one hour before them, aware UTC
t = T + 86400
rebuilt = scenario(t, t + 60, dt.datetime.fromtimestamp(t - 3600, dt.timezone.utc))
if rebuilt:
    print("(a) downstream is newer than upstream and newer than fresh_time, yet it was rebuilt")
    bad = 1
# (b) downstream written 01:50 EDT (T-10min), upstream written 01:10 EST (T+10min): upstream is newer
rebuilt = scenario(T + 600, T - 600, None)
if not rebuilt:
    print("(b) upstream was written after downstream (repeated hour), yet downstream was not rebuilt")
    bad = 1
sys.exit(bad)
