"""F3 (C12): TextFileStore does not return what was written when the string contains '\\r'.

Real code, public API only: open() without newline='' translates '\\r' and '\\r\\n' to '\\n' on read
(universal newlines).  exit 1 = defect present, exit 0 = fixed.
"""
import os
import sys
import tempfile

from uberjob.stores import TextFileStore

bad = 0
with tempfile.TemporaryDirectory() as d:
    st = TextFileStore(os.path.join(d, "t.txt"))
    for v in ("a\rb", "a\r\nb", "\r", "line1\nline2"):
        st.write(v)
        back = st.read()
        if back != v:
            print(f"wrote {v!r}, read {back!r}")
            bad = 1
sys.exit(bad)
