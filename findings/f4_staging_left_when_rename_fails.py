"""F4 (C11): when the final rename of a staged write fails, the .STAGING file is left behind.

Real code, no fault injection: the target path is an existing directory, so os.replace raises
IsADirectoryError.  The write fails by exception, yet `<target>.STAGING` stays in the directory.
exit 1 = defect present, exit 0 = fixed.
"""
import os
import sys
import tempfile

from uberjob.stores import JsonFileStore, staged_write

bad = 0
with tempfile.TemporaryDirectory() as d:
    target = os.path.join(d, "value.json")
    os.mkdir(target)  # the rename onto a directory fails
    try:
        JsonFileStore(target).write({"a": 1})
        print("write unexpectedly succeeded")
        bad = 1
    except OSError as e:
        print("write failed as expected:", type(e).__name__)
    left = [f for f in os.listdir(d) if f.endswith(".STAGING")]
    if left:
        print("staging file left behind:", left)
        bad = 1
    t2 = os.path.join(d, "other.txt")
    os.mkdir(t2)
    try:
        with staged_write(t2) as f:
            f.write("x")
    except OSError:
        pass
    left = [f for f in os.listdir(d) if f.endswith(".STAGING")]
    if left:
        print("staging file left behind (staged_write):", left)
        bad = 1
sys.exit(bad)
