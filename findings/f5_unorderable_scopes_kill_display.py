"""F5 (C20): scopes whose values have one type that cannot be ordered make the bundled displays raise.

Plan.scope accepts any hashable, equatable values.  Two scopes that differ in values of the same
unorderable type (complex numbers, Enum members, plain objects ...) make `sorted_scope_items` raise
TypeError inside the observer's render; in a real run that happens on the update thread, which dies,
so the display silently stops updating (and the final rendering is never produced).
Public API only.  exit 1 = defect present, exit 0 = fixed.
"""
import enum
import io
import sys
import contextlib
import threading

import uberjob
from uberjob.progress import console_progress


class Color(enum.Enum):
    RED = 1
    BLUE = 2


plan = uberjob.Plan()
outs = []
for c in Color:
    with plan.scope(c):
        outs.append(plan.call(lambda: 1))

died = []
old_hook = threading.excepthook
threading.excepthook = lambda args: died.append(args.exc_value)
buf = io.StringIO()
try:
    with contextlib.redirect_stdout(buf):
        uberjob.run(plan, output=outs, progress=console_progress)
finally:
    threading.excepthook = old_hook
text = buf.getvalue()
if died:
    print("the display's update thread died:", repr(died[0]))
    sys.exit(1)
if "2 / 2" not in text and text.count("1 / 1") < 2:
    print("the final counts were never rendered:\n" + text)
    sys.exit(1)
sys.exit(0)
