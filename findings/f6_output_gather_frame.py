"""F6 (C19): a failure in the gather that run() builds for a container `output` is attributed to
uberjob/_run.py instead of the user's line.

Public API only.  exit 1 = defect present, exit 0 = fixed.
"""
import sys

import uberjob

plan = uberjob.Plan()
x = plan.call(lambda: [1])  # unhashable value: putting it in a set fails at run time

try:
    uberjob.run(plan, output={x}, progress=None)  # <- the user line that creates the failing gather
    print("no error?")
    sys.exit(1)
except uberjob.CallError as e:
    sf = e.call.stack_frame
    print(str(e))
    if sf.path != __file__ or sf.name != "<module>":
        print(f"\ninnermost symbolic frame is {sf.path}:{sf.line} in {sf.name}, not the user's line in {__file__}")
        sys.exit(1)
sys.exit(0)
