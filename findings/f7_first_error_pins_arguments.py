"""F7 (C16, known finding): the arguments of the FIRST failing call stay referenced until the run ends.

Real code, public API, one worker, max_errors=None.  A producer's result is consumed only by a call
that raises; the run goes on with other calls.  uberjob keeps the first error (to re-raise it at the
end) and its traceback references the failing call's frame(s), whose locals hold the argument - so
the producer's result is still alive while the remaining calls run, although every call consuming
it has finished.  Later failures release their arguments.  exit 1 = behaviour present.
"""
import gc
import sys
import weakref

import uberjob


class Big:
    pass


refs = {}
alive_during_later_calls = {}


def produce(name):
    b = Big()
    refs[name] = weakref.ref(b)
    return b


order = []


def consume(x):
    order.append("consume")
    raise RuntimeError("consumer failed")


def later(tag):
    order.append("later")
    gc.collect()
    alive_during_later_calls[tag] = {k: r() is not None for k, r in refs.items()}


for attempt in range(200):
    refs.clear(); alive_during_later_calls.clear(); del order[:]
    plan = uberjob.Plan()
    p1 = plan.call(produce, "first")
    c1 = plan.call(consume, p1)
    laters = [plan.call(later, f"after{k}") for k in range(4)]
    try:
        uberjob.run(plan, output=[c1] + laters, max_workers=1, max_errors=None, progress=None, scheduler="random")
    except uberjob.CallError:
        pass
    after_failure = order[order.index("consume") + 1:]
    if after_failure:
        break
else:
    print("inconclusive: the failing call always ran last")
    sys.exit(2)
print(order)
# the `later` calls that ran after the failure saw the producer's result still alive?
seen = [alive_during_later_calls[t]["first"] for t in list(alive_during_later_calls)[-len(after_failure):]]
print("alive while later calls ran:", seen)
if any(seen):
    print("the result consumed only by the first failing call is still referenced while later calls run")
    sys.exit(1)
sys.exit(0)
