#!/usr/bin/env python3
"""Regenerates MANIFEST.json from the table below (single source of truth)."""
import json
import os

HERE = os.path.dirname(os.path.abspath(__file__))

E1_NOTE = ("Trusted base: the shim threading layer (Lock/Condition/Thread/Event) that replaces `threading` in the "
           "engine modules and in stdlib `queue` (bound by litmus tests and free-running conformance runs in the C07 check); "
           "atomicity of one CPython 3.12 bytecode on built-in objects; bounds as reported in the evidence file.")

E2_NOTE = ("Trusted base: harness value stores on a logical clock (times strictly increase with every write), call functions that are injective term constructors; "
           "the canonical-state quotient (time ranks + per-store correctness bit); runs inside the BFS use one worker, other operation orders come from the E1 part where stated; "
           "dependent sources in the plan family are well formed (everything they depend on is upstream of the call that writes them); 'deletion of stored values' means values stored by runs, not pure sources.")

CHECKS = {
    "C01": dict(
        engine="E1",
        category="model_checking",
        text=("Stateless model checking of the real run_function_on_graph / queue / worker-pool code under a controlled "
              "scheduler: every schedule within the stated preemption bound (bytecode-level preemption inside the "
              "node-processing code), on every DAG of 3 nodes (and join-containing DAGs of 4) with parallel-edge and literal "
              "variants, 1-3 workers, all three queue kinds with RandomQueue draws enumerated; plus uberjob.run on every "
              "3-call plan over all edge kinds in every pop order the queue permits. Oracle: at every call start all logical "
              "ancestors have ended successfully. Also with failing calls whose error budget is not exhausted (max_errors 1/None): a call must not start when an ancestor FAILED; and chains of two literals that both survive pruning."),
        design_ref="DESIGN.md section 4, C01; section 3 E1",
        note=E1_NOTE,
        technique="stateless model checking of the implementation (preemption-bounded DFS over thread schedules, bytecode-level scheduling points)",
    ),
    "C04": dict(
        engine="E1", category="model_checking",
        text=("Same stateless model checking of the real engine as C01 with the exactly-once oracle: per execution every node's start count is <= 1, "
              "after a normal return the executed set equals the ancestors of the requested output, and the queue is drained (unfinished_tasks == 0, no items left). "
              "API level: every 3-call plan over edge kinds x every output specification (none, literals only, single node, lists, nested containers, a bare Literal with dependencies), "
              "where every call the output does not need raises if it is ever run. Also fault patterns (a run that returns normally must have executed everything the output needs, whatever a call raised) and a sequential enumeration retry x falsy return values (a success returning None/0/False/'' runs exactly once). "
              "Overlapping runs: a call that itself runs an inner plan (at every call position, inner succeeding or failing) and two threads each running their own plan, every schedule within the bounds - each run executes exactly its own calls once."),
        design_ref="DESIGN.md section 4, C04", note=E1_NOTE,
        technique="stateless model checking of the implementation (preemption-bounded DFS, bytecode-level points) + bounded-exhaustive plan/output enumeration",
    ),
    "C06": dict(
        engine="E1", category="model_checking",
        text=("Stateless model checking of the real engine over fault patterns: every non-empty subset of nodes of every 3-node DAG raises "
              "(Exception, custom BaseException, SystemExit), max_errors in {0,1,None}, 1-2 workers (3 in thorough), all queue kinds; API level with CallError identity checks. "
              "Oracle per execution: no descendant of a failed call starts; run raises; the error names a call that raised, __cause__ is that very exception object; "
              "with one worker it is the first failure. Also literal hubs (m predecessors x k successors sharing one literal, as dependency or argument) with failing predecessors, and an E2 part: store reads / writes / side-effect producers failing at every operation index of runs from every reachable store state (plans built in three orders) - nothing downstream of the failed node may start afterwards."),
        design_ref="DESIGN.md section 4, C06", note=E1_NOTE,
        technique="stateless model checking of the implementation over enumerated fault patterns",
    ),
    "C07": dict(
        engine="E1", category="model_checking",
        text=("Deadlock / livelock / after-return oracles of the explorer on corner configurations (0-2 node graphs with 1..n+2 workers, BaseException in workers, "
              "all queue kinds, every instruction of the pool set-up/tear-down code a scheduling point), bounded-exhaustive cycle enumeration at the API "
              "(cycles of length 1-3 through every edge kind, with/without registry, needed/unneeded by the output), and the binding of the shim threading layer "
              "(litmus suite explored completely and compared with real threads; free-running conformance runs of the same harness bodies). Also: the bundled console observers (their update thread on the shim layer) as members of progress=[...] with a member that fails to start, and a refused Thread.start() as an environment choice - every thread run started must still exit."),
        design_ref="DESIGN.md section 4, C07; section 3 E1 binding", note=E1_NOTE,
        technique="stateless model checking (deadlock/livelock detection under a controlled scheduler) + bounded-exhaustive cycle enumeration",
    ),
    "C17": dict(
        engine="E1", category="model_checking",
        text=("Stateless model checking with asynchronous-exception injection: one KeyboardInterrupt is raised in the calling thread at every scheduling point "
              "(every instruction of the worker-pool creation / shutdown code, every blocking wait such as queue.join) at which a call is in flight, combined with "
              "preemption-bounded schedules. Oracle: run terminates with KeyboardInterrupt, in-flight calls complete, no call is dequeued after the caller began joining, "
              "no call is dequeued+started after the interrupt when the caller ran whenever it could, observer exited, every thread exits, nothing runs after return. Also: configurations where a call fails after the interrupt while another completes and makes children ready (random queue, draws enumerated), and a real-SIGINT conformance pass in subprocesses with unmodified threading."),
        design_ref="DESIGN.md section 4, C17", note=E1_NOTE + " A signal that lands inside C code is represented by the nearest bytecode boundary / modelled blocking wait of the calling thread.",
        technique="stateless model checking with interrupt injection at every scheduling point of the calling thread",
    ),

    "C03": dict(
        engine="E2", category="model_checking",
        text=("Explicit-state model checking with the real uberjob.run as transition function: for every plan of an exhaustive small family (<= 2 non-source slots of kind stored call / unstored call / "
              "side-effect producer + dependent source, every edge kind between them, plus curated 4-6 node shapes; 3 slots in thorough) a BFS over canonical store states runs to a FIXPOINT under "
              "{run with any output and any fresh_time gap, run failing at every operation index by exception or death, source update, stored-value deletion}. After every successful run in every "
              "reachable state the output and every non-source store must equal an independent from-scratch evaluation."),
        design_ref="DESIGN.md section 4, C03; section 3 E2", note=E2_NOTE,
        technique="explicit-state model checking (BFS to fixpoint over canonical store states, implementation as transition function)",
    ),
    "C05": dict(
        engine="E2", category="model_checking",
        text=("Same fixpoint BFS as C03 with a declarative out-of-date oracle written from the property text (transitive ancestors, not the code's local propagation): in every reachable state and for every "
              "output x fresh_time, the multiset of writes, executed calls, side-effect producers and reads of the real run must equal exactly what the oracle derives; an immediately repeated run must log nothing but modified-time queries."),
        design_ref="DESIGN.md section 4, C05", note=E2_NOTE,
        technique="explicit-state model checking (fixpoint BFS) against a declarative out-of-date oracle",
    ),
    "C08": dict(
        engine="E2", category="model_checking",
        text=("Same fixpoint BFS; from every reachable state every run is cut at EVERY operation index (call start, store read, write before/after it took effect, side-effect write, modified-time query) "
              "by an exception (max_errors 0 and None) or by death (all later operations raise). After each cut: every store the stale rule would treat as up to date equals its from-scratch value, "
              "and no store completely written before the cut looks out of date; every cut state is itself explored further (next runs are checked by the C03/C05 oracles)."),
        design_ref="DESIGN.md section 4, C08", note=E2_NOTE,
        technique="explicit-state model checking with exhaustive cut-point (fault) enumeration on every transition",
    ),
    "C09": dict(
        engine="E2", category="model_checking",
        text=("Same fixpoint BFS with normalising stores (read returns a value distinguishable from what was written): on the event log of every successful run in every reachable state, for each rewritten store: "
              "write < read-back < start of every argument consumer, write < start of every plain dependent, every stored descendant rewritten later in the same run, out-of-date dependent source read only "
              "after the calls it depends on ended; every call's recorded arguments and the run's output equal what the stores' read returned."),
        design_ref="DESIGN.md section 4, C09", note=E2_NOTE,
        technique="explicit-state model checking (fixpoint BFS) with ordering/provenance oracle on every run's event log",
    ),
    "C14": dict(
        engine="E2", category="model_checking",
        text=("Twin-world check inside the same fixpoint BFS: in every reachable state and for every output x fresh_time, a dry run on a twin world must log nothing but modified-time queries and leave the stores unchanged; "
              "the returned physical plan is then executed alone (no registry, all its nodes requested) and must perform the same multiset of calls/reads/writes, obey the same ordering constraints, yield the same output "
              "and leave the same stored values as the real run from that state. The returned plan is also compared structurally with the physical plan the real run executes (captured through transform_physical), with and without a user transform_physical."),
        design_ref="DESIGN.md section 4, C14", note=E2_NOTE,
        technique="explicit-state model checking (fixpoint BFS) with differential twin-world oracle",
    ),

    "C11": dict(
        engine="E4", category="fault_enumeration",
        text=("Exhaustive fault enumeration over the file operations of a write: for every file store class and both staged_write helpers, str and pathlib paths, previous value present/absent, "
              "new value small / empty / larger than the io buffer / failing to serialise part-way, a fault-free pass records the operation list (open, write..., close, replace, remove) through "
              "process-wide proxies (the file object is assembled from io's own classes over a FileIO subclass, so every write(2) call of the buffered layer is an operation too, which may also return a short count with or without ENOSPC afterwards); the write is repeated with a fault at EVERY operation index in every mode (OSError before/after the operation took effect, non-Exception BaseException, "
              "process death before/after in a forked child). Oracle: target bytes are the complete previous or complete new value, modified time changes only with new content, no staging file after a failure by exception, "
              "a staging file left by a death does not disturb a later write+read."),
        design_ref="DESIGN.md section 4, C11; section 3 E4",
        note="Crash model is process death (Python buffers lost), not power loss; interception is at builtins.open / io.open / os.replace / os.rename / os.remove, so writes that bypass the staging helper are still observed; an exception inside the clean-up's own os.remove is not injected.",
        technique="exhaustive fault / crash-point enumeration over the recorded file-operation sequence of the real write path",
    ),

    "C12": dict(
        engine="E3", category="exploration",
        text=("Bounded-exhaustive enumeration of values per store domain through the real store classes (direct, pathlib paths, and through a MountedStore): TextFileStore x 5 encodings x "
              "{all strings of length <= 3 over a 9-symbol alphabet of line terminators / control characters / BOM / astral code points, every Unicode scalar value}, JsonFileStore x all JSON values up to a size bound, "
              "PickleFileStore, BinaryFileStore (all byte strings up to a length bound + 64 KiB), TouchFileStore; oracle: read() equal and of the same type recursively, get_modified_time None exactly before the first write and never decreasing; "
              "plus every operation sequence of length <= 4 over {write v1, write v2, read, get_modified_time}. The quantifier is over values, so the deciding step is complete enumeration below the stated bounds. Also (E1): threads each writing and reading back through their own MountedStore, every interleaving within the preemption bound, every instruction of MountedStore.read/write a scheduling point."),
        design_ref="DESIGN.md section 4, C12",
        note="Bounds as in the evidence file; NaN and non-str dict keys are outside the JSON domain; 'large' = 64 KiB; file-system timestamp granularity means equal times are accepted as 'not decreasing'.",
        technique="bounded-exhaustive input enumeration against a reference (identity) model",
    ),

    "C18": dict(
        engine="E3", category="exploration",
        text=("Complete product of configurations: 6 process time zones (TZ + tzset; offsets 0, -5/-4, 0/+1, +5:30, +5:45, +12/+13) x modified times of an upstream source and a downstream stored value from 7 instants "
              "placed on both sides of and inside the zone's repeated DST fall-back hour x fresh_time (none or one of the instants) x the form of each of the three datetimes (naive local with fold, aware UTC, aware +09:00, aware in the process zone); "
              "run through the real uberjob.run with harness stores, and a second pass with real JsonFileStores and os.utime. Oracle: downstream rewritten <=> instant(D) < max(instant(U), instant(fresh_time))."),
        design_ref="DESIGN.md section 4, C18",
        note="'All zones' is represented by six zones; one source -> one stored call (the comparison code is shared by all nodes).",
        technique="bounded-exhaustive enumeration of configurations against an instant-based reference oracle",
    ),

    "C19": dict(
        engine="E3", category="exploration",
        text=("Complete enumeration of (kind of symbolic call x call-site nesting depth x workers): plan.call, explicit gather, implicit gather inside plan.call, unpack (the unpack call and its getitem nodes), "
              "registry.add with failing write / failing read-back, registry.source with failing read, failing modified-time query of a source / of an added node, source run without its registry, and the gather run() builds for a container output; "
              "creation happens through 0..6 nested helper calls on a raw thread whose stack starts at the harness entry, so real stacks of 2..8 frames (shallower than, equal to, deeper than the 4-frame limit) all occur. "
              "The expected chain is captured with sys._getframe on the creating line itself; oracle: CallError.call is the failing call, its stack_frame chain equals the real stack innermost-first up to the limit, truncation marker iff more frames existed, and str(error) lists the same frames outermost first. Every kind is also run on Plan.copy()/Registry.copy()."),
        design_ref="DESIGN.md section 4, C19",
        note="getitem nodes of unpack cannot fail at run time; their frames are checked statically. Depths 0..6 cover both sides of MAX_TRACEBACK_DEPTH (read from the module at run time).",
        technique="bounded-exhaustive enumeration of call-site kinds and stack depths against independently captured stacks",
    ),

    "C02": dict(
        engine="E3", category="exploration",
        text=("Bounded-exhaustive enumeration of programs against a reference interpreter that is independent of Plan._gather / get_argument_nodes: every expression up to nesting depth 2 (thorough 3) over "
              "{int, three result nodes two of which evaluate equal, opaque list-subclass instance, list-subclass holding a Node} in list/tuple/set/dict (nodes as dict keys, colliding keys) as positional argument, keyword argument and output specification; "
              "every mix of positional and keyword arguments in both keyword orders; every chain of 3 calls consuming earlier results in every position; unpack of finite and infinite iterables of every length against every requested length. "
              "Every program runs under 1 worker x both schedulers and 2 workers; call functions return frozen records so order, naming and object identity of what they received are observable. "
              "Schedule independence: selected chain / unpack programs are additionally explored under E1 (every schedule with <= 1 preemption, 2 workers, RandomQueue draws enumerated). The quantifier is over programs; the deciding step is complete enumeration below the size bound."),
        design_ref="DESIGN.md section 4, C02",
        note="Reference interpreter and identity tracking are part of the trusted base; sets with equal-but-distinguishable members are compared by equality only.",
        technique="bounded-exhaustive program enumeration against a reference interpreter + stateless model checking of schedules on selected programs",
    ),

    "C13": dict(
        engine="E3", category="exploration",
        text=("(a) Every operation sequence of length <= 3 over a 17-operation alphabet (successful run, run failing in the stale check / in a call / in a store write, dry run, render, render with level 0/1/2/-1, with a predicate, of a dry-run result and of a bare graph, run without output, "
              "transform_physical that edits the physical plan, run without registry, fresh_time run, 2-worker random run, Plan.copy / Registry.copy followed by mutation of the copy) on five plans; a deep identity snapshot "
              "(node objects, their scope/fn/value/stack_frame identities, edge multiset with keys and data, plan scope, registry entries and RegistryValue objects) is compared after EVERY step and a final run is compared with a pristine twin. "
              "(b) Stateless model checking (E1) of two threads that run / dry-run the SAME plan and registry concurrently: every schedule with <= 1 preemption (bounded non-default choices at blocking points), scheduling points at attribute/subscript accesses inside the transformation code; "
              "both must return the sequential result and the snapshot must be unchanged."),
        design_ref="DESIGN.md section 4, C13", note=E1_NOTE + " Node objects are shared between a plan and its copies by design; only structural mutation of copies is exercised.",
        technique="bounded-exhaustive operation-sequence enumeration with snapshot invariant + stateless model checking of concurrent runs",
    ),

    "C15": dict(
        engine="E1", category="model_checking",
        text=("Stateless model checking of uberjob.run with a recording ProgressObserver whose methods are scheduling points: plans with nested and repeated scopes (several calls sharing one scope), with and without a registry "
              "(missing and fresh stored values), every fault pattern of {Exception, BaseException, SystemExit} calls, max_errors in {0,1,None}, 1-2 workers, both schedulers, single and composite observers; every schedule within the preemption bound. "
              "Oracle = an automaton over each execution's notification sequence: enter first; exit exactly once, last, with the exception type iff run raised; totals announced before anything runs in that (section, scope); "
              "running never negative nor above total; with calls ending normally or by Exception every running matched by exactly one completed/failed and nothing running at exit; after success completed == total everywhere, "
              "'run' totals per user scope == independently counted executed calls with that scope, 'stale' totals == number of calls examined; composite members receive identical sequences. Also: progress=[...] lists with a member whose __enter__ raises (earlier members must be exited exactly once), and one composite Progress reused for two runs (observers are single-use)."),
        design_ref="DESIGN.md section 4, C15", note=E1_NOTE,
        technique="stateless model checking of the implementation with an automaton oracle over observer notifications",
    ),

    "C16": dict(
        engine="E1", category="model_checking",
        text=("Stateless model checking of uberjob.run where every call returns a fresh weak-referenceable object and a recording observer's 'completed' notification marks the end of a call's engine-side processing: "
              "all DAGs on 3 and 4 calls and the seven shapes of tests/test_scheduler.py (argument and keyword edges), outputs none / last node / all sinks, with and without a registry, 1-2 workers, both schedulers with RandomQueue draws enumerated, "
              "every schedule within the preemption bound. At EVERY call start and EVERY completed notification of every execution, each result whose producer and all needed consumers are completed and which is not part of the output must be dead after gc.collect(); output results must be alive at return. Also plain-dependency edges (calls nobody consumes) and failing consumers (Exception/BaseException/SystemExit, max_errors=None); the first failing call pinning its arguments is a recorded known finding."),
        design_ref="DESIGN.md section 4, C16", note=E1_NOTE + " Liveness is observed through weakref + gc.collect(); results reference nothing, stores keep no reference to written values.",
        technique="stateless model checking of the implementation with a weak-reference liveness oracle at every call boundary",
    ),

    "C10": dict(
        engine="E1", category="model_checking",
        text=("Stateless model checking of uberjob.run under the controlled scheduler: (a) in-flight counters inside call functions, store operations and modified-time queries - over every schedule within the bound the number in flight never exceeds max_workers (stale_check_max_workers for the queries); "
              "(b) w independent ready calls block on a harness rendezvous until w are in flight: with max_workers = w (and w+1) every schedule must complete - a serialising engine deadlocks and is reported - and with w-1 every schedule must deadlock (harness sanity); "
              "(c) every non-empty set of failing calls (Exception / BaseException / SystemExit) on 5 graphs x max_errors in {None,0,1,2} x 1-2 workers: failed calls <= k + workers, with one worker exactly min(k+1, failing calls without failed dependency), None => every call without failed dependency ran; "
              "(d) sequential bounded-exhaustive retry: operation kind {call, store read, store write, modified-time query} x fails on the first j in 0..4 attempts x retry n in 1..4 and two custom decorators: attempts == min(n, j+1), eventual success feeds dependants, the reported cause is the last attempt's exception object, custom decorators are applied to every operation kind. Rendezvous also among calls that only become ready later (fan-out from one root), and work that appears after the error limit was hit."),
        design_ref="DESIGN.md section 4, C10", note=E1_NOTE,
        technique="stateless model checking of the implementation (in-flight counters, rendezvous liveness, fault patterns) + bounded-exhaustive retry enumeration",
    ),

    "C20": dict(
        engine="E1", category="model_checking",
        text=("(a) Explicit-state BFS over progress states: for every set of <= 2 (thorough 3) scopes from a pool of 20 awkward scope tuples (values of one unorderable type - complex, Enum, frozenset, opaque hashables -, mixed types, None, bool, bytes, nested tuples), "
              "placed in the run section, the stale section or both, all counter states reachable by legal notification sequences (totals <= 2) are reached by driving the real observers' notification methods; in EVERY state a fresh console, HTML and IPython observer renders: "
              "no exception, and the rendering shows the state's counts. (b) Stateless model checking (E1) of the real update thread (SimpleProgressObserver.__enter__/__exit__/_run_update_thread) with shim threading, a fake rational clock and timer firings of Event.wait as choices: "
              "in every schedule within the budget the last rendering that shows a section reflects its final counts, the update thread is alive until __exit__ and never dies, and the elapsed time attributed to scopes equals exactly the time during which something was running."),
        design_ref="DESIGN.md section 4, C20", note=E1_NOTE + " IPython observer is rendered outside a notebook (display captured); wall-clock is a fake clock advanced by the notifying thread.",
        technique="explicit-state BFS over progress states with rendering in every state + stateless model checking of the update thread (timer firings as choices)",
    ),
}

NOT_APPLICABLE = {
}


def main():
    props = [json.loads(l)["id"] for l in open(os.path.join(HERE, "properties.jsonl"))]
    checks = []
    for pid in props:
        c = CHECKS.get(pid)
        if not c:
            continue
        checks.append({
            "property_id": pid,
            "quick_cmd": f"./check {pid} --tier quick",
            "thorough_cmd": f"./check {pid} --tier thorough",
            "evidence_file": f"evidence/{pid}.json",
            "replay_cmd_template": f"./check {pid} --replay {{path}}",
            "engine": c["engine"],
            "level_claimed": {"category": c["category"], "text": c["text"], "design_ref": c["design_ref"]},
            "level_note": c["note"],
            "technique": c["technique"],
        })
    na = []
    for pid in props:
        if pid not in CHECKS:
            na.append({"property_id": pid,
                       "reason": NOT_APPLICABLE.get(pid, "check not built yet in this round (planned: see DESIGN.md section 4); not claimed until it exists")})
    m = {
        "version": 1,
        "setup_cmd": "true",
        "hooks": {
            "guard": "UBERJOB_VERIF",
            "enable": "no source hooks: checks re-bind module globals (threading, random, time, os, open) from outside and use sys.monitoring; nothing in /repo is guarded",
            "baseline_off_cmd": "cd /repo && /venv/bin/python -m pytest -ra -q -p no:cacheprovider --timeout=900 --continue-on-collection-errors",
            "source_commits": [],
            "add_only": True,
        },
        "engines": [
            {"name": "E1", "path": "vlib/e1.py", "serves_properties": ["C01", "C04", "C06", "C07", "C10", "C13", "C15", "C16", "C17", "C20"],
             "kind_free_text": "stateless model checker for Python threads: baton-passing scheduler over real OS threads, shim threading, sys.monitoring bytecode points, preemption-bounded DFS"},
            {"name": "E2", "path": "vlib/e2.py", "serves_properties": ["C03", "C05", "C08", "C09", "C14"],
             "kind_free_text": "explicit-state BFS to fixpoint over canonical store states, transition function = real uberjob.run"},
            {"name": "E3", "path": "vlib/props", "serves_properties": ["C02", "C12", "C13", "C18", "C19", "C20"],
             "kind_free_text": "bounded-exhaustive enumeration of programs/inputs/configurations against reference models"},
            {"name": "E4", "path": "vlib/e4.py", "serves_properties": ["C08", "C11"],
             "kind_free_text": "fault and crash point enumeration over the file operations of a write"},
        ],
        "checks": checks,
        "not_applicable": na,
        "notes": "All checks run /venv/bin/python with /repo/src first on sys.path and assert uberjob.__file__ is under it (the /venv site-packages copy is never used).",
    }
    with open(os.path.join(HERE, "MANIFEST.json"), "w") as fh:
        json.dump(m, fh, indent=1)
    print("wrote MANIFEST.json:", len(checks), "checks,", len(na), "not_applicable")


if __name__ == "__main__":
    main()
