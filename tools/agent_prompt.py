#!/usr/bin/env python3
"""tools/agent_prompt.py <PROP> <worktree-name> [<text listing changes to avoid>]
Prints the prompt given to an independent sub-agent that is asked for a property-breaking change.
The agent receives ONLY the property text (from properties.jsonl) and environment facts - nothing of /verif's machinery."""
import json, sys
pid, wt = sys.argv[1], sys.argv[2]
avoid = sys.argv[3] if len(sys.argv) > 3 else ""
p = next(json.loads(l) for l in open("/verif/properties.jsonl") if json.loads(l)["id"] == pid)
prop = f"{p['id']}: {p['title']}\n\nSTATEMENT: {p['statement']}\n\nQUANTIFIER: {p['quantifier']['text']}\n\nWHY TESTS CAN'T SETTLE IT: {p['why_tests_cant']}\n"
div = ("DIVERSITY: other people have already produced the following seeded changes for this property; yours must use a DIFFERENT mechanism and a different code site: " + avoid + "\n\n") if avoid else ""
print(f"""You are helping test a verification effort for the open-source Python library twosigma/uberjob (symbolic call graphs run on a thread pool, with mtime-based incremental caching through value stores). You have your own scratch git worktree of the repository at /tmp/{wt} (work ONLY there; never touch /repo or /verif, and do not read anything under /verif).

Here is a semantic property the library is supposed to satisfy:

-----
{prop}
-----

YOUR TASK: produce ONE realistic change (a "seeded bug") to the library source under /tmp/{wt}/src/uberjob that BREAKS this property, while the code still imports and ALL existing tests still pass. The change should look like a plausible refactoring slip or "optimisation" by a maintainer, 1-15 lines. IMPORTANT: it must need something SPECIFIC to manifest - a particular interleaving, a crash/fault at a particular point, a multi-step sequence of operations, an unusual-but-legal input or graph shape, or two cooperating sites that each look fine alone - NOT something ordinary use would expose at once (and therefore not something the existing tests catch).

Environment facts you need:
- Python is /venv/bin/python (3.12). /venv's site-packages contains a COPY of uberjob, so you MUST run everything with PYTHONPATH=/tmp/{wt}/src to exercise your worktree, e.g.
    cd /tmp/{wt} && PYTHONPATH=/tmp/{wt}/src /venv/bin/python -m pytest -q -p no:cacheprovider --timeout=900
  All 81 tests must pass with your change (run them; report the last line of pytest output). If your change can make the suite hang, abandon that idea quickly (use --timeout=60 while iterating).
- No network. Do not install anything.

{div}DELIVERABLES (put them in /tmp/{wt}/_seed/):
1. patch.diff  - `git -C /tmp/{wt} diff -- src > /tmp/{wt}/_seed/patch.diff` (only files under src/; do not modify tests).
2. demo.py     - a small standalone program (uses only the public uberjob API plus your own ValueStore subclasses / threads / fault injection as needed; deterministic - use events/barriers rather than sleeps where timing matters) that exits 0 when the property holds for its scenario and exits 1 (printing what went wrong) when it is violated. It must exit 1 with your change applied and exit 0 on the unmodified library (verify both: run it with PYTHONPATH=/tmp/{wt}/src with the change, and with PYTHONPATH=/repo/src for the clean run).
3. meta.json   - {{"property": "{pid}", "summary": "...what the change does...", "needs_to_manifest": "...the specific condition...", "files": [...], "tests_last_line": "...", "demo_with_change_exit": 1, "demo_clean_exit": 0}}

Leave the change applied in the worktree when you finish. In your final message, give: the diff, why it breaks the property, what specific condition is needed, and the verification you ran (test result line, demo exit codes). Be concrete and do not overstate: if you could not make the tests pass or the demo discriminate, say so.""")
