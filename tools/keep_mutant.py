#!/usr/bin/env python3
"""tools/keep_mutant.py <src-dir> <seeded-id> <PROP> <detected_by...>
Archives a confirmed property-breaking change under seeded/<id>/ (patch.diff, demo.py, meta.json)."""
import json, os, shutil, subprocess, sys
src, sid, prop = sys.argv[1:4]
detected = " ".join(sys.argv[4:])
dst = os.path.join("/verif/seeded", sid)
os.makedirs(dst, exist_ok=True)
for f in ("patch.diff", "demo.py"):
    shutil.copy(os.path.join(src, f), os.path.join(dst, f))
meta = {}
mp = os.path.join(src, "meta.json")
if os.path.exists(mp):
    try:
        meta = json.load(open(mp))
    except Exception:
        meta = {"raw_meta": open(mp).read()}
out = subprocess.run(["/verif/tools/mutcheck.sh", src, prop], capture_output=True, text=True).stdout
lines = out.strip().splitlines()
meta["breaks_property"] = prop
meta["confirmation"] = {
    "how": "tools/mutcheck.sh: patch applied to a scratch copy of /repo (fix commits included); the 81 pinned tests run with PYTHONPATH=<copy>/src; demo.py run with and without the patch; ./check %s run with VERIF_REPO=<copy>" % prop,
    "tests_with_patch": next((l for l in lines if l.startswith("tests(")), ""),
    "demo_with_patch": next((l for l in lines if l.startswith("demo(with")), ""),
    "demo_clean": next((l for l in lines if l.startswith("demo(clean")), ""),
    "check_exit": next((l for l in lines if l.startswith("check exit")), ""),
    "first_violation": next((l for l in lines if l.strip().startswith("key:")), "")[:400],
}
meta["detected_by"] = detected
json.dump(meta, open(os.path.join(dst, "meta.json"), "w"), indent=1)
print(sid, meta["confirmation"]["tests_with_patch"], "|", meta["confirmation"]["demo_with_patch"], "|", meta["confirmation"]["demo_clean"], "|", meta["confirmation"]["check_exit"])
