#!/bin/bash
# tools/mutcheck.sh <mutant-dir> <PROP> [tier] [--notests]
# Applies <mutant-dir>/patch.diff to a scratch copy of /repo, confirms (1) the 81 tests
# pass, (2) demo.py fails with the patch and passes without, then runs ./check <PROP>
# against the scratch copy (VERIF_REPO) and removes the copy.
set -u
mut="$1"; prop="$2"; tier="${3:-quick}"
scratch=$(mktemp -d /tmp/mc_XXXXXX)
trap 'rm -rf "$scratch"' EXIT
cp -r /repo/src /repo/tests /repo/pyproject.toml "$scratch"/
( cd "$scratch" && git init -q . 2>/dev/null && { git apply "$mut/patch.diff" 2>/dev/null || git apply -C1 "$mut/patch.diff" 2>/dev/null || patch -s -p1 -F3 < "$mut/patch.diff"; } ) || { echo "PATCH DOES NOT APPLY"; exit 3; }
if [ "${4:-}" != "--notests" ]; then
  t=$(cd "$scratch" && PYTHONPATH="$scratch/src" /venv/bin/python -m pytest -q -p no:cacheprovider --timeout=900 2>&1 | tail -1)
  echo "tests(with patch): $t"
  if [ -f "$mut/demo.py" ]; then
    PYTHONPATH="$scratch/src" timeout 300 /venv/bin/python "$mut/demo.py" >/dev/null 2>&1; echo "demo(with patch) exit: $?"
    PYTHONPATH=/repo/src timeout 300 /venv/bin/python "$mut/demo.py" >/dev/null 2>&1; echo "demo(clean) exit: $?"
  fi
fi
cd /verif
VERIF_REPO="$scratch" ./check "$prop" --tier "$tier" 2>&1 | grep -E "VIOLATION|KNOWN|FATAL|Traceback|Error|^$prop|key:" | head -12
echo "check exit: ${PIPESTATUS[0]}"
