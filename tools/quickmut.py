#!/usr/bin/env python3
"""tools/quickmut.py <relpath-under-src/uberjob> <old> <new> <PROP>[,<PROP>...] [--tests] [--tier T]
Hand-made mutant: replaces `old` by `new` (exactly one occurrence) in a scratch copy of /repo and runs
the named checks against it (VERIF_REPO).  Nothing in /repo is touched."""
import os, shutil, subprocess, sys, tempfile

rel, old, new, props = sys.argv[1:5]
tests = "--tests" in sys.argv
tier = sys.argv[sys.argv.index("--tier") + 1] if "--tier" in sys.argv else "quick"
scratch = tempfile.mkdtemp(prefix="qm_", dir="/tmp")
try:
    for d in ("src", "tests"):
        shutil.copytree(f"/repo/{d}", f"{scratch}/{d}")
    shutil.copy("/repo/pyproject.toml", scratch)
    p = f"{scratch}/src/uberjob/{rel}"
    s = open(p).read()
    old = old.encode().decode("unicode_escape")
    new = new.encode().decode("unicode_escape")
    if s.count(old) != 1:
        print(f"pattern occurs {s.count(old)} times"); sys.exit(3)
    open(p, "w").write(s.replace(old, new))
    if tests:
        r = subprocess.run(["/venv/bin/python", "-m", "pytest", "-q", "-p", "no:cacheprovider", "-x", "--timeout=900"],
                           cwd=scratch, env={**os.environ, "PYTHONPATH": f"{scratch}/src"}, capture_output=True, text=True)
        print("tests:", r.stdout.strip().splitlines()[-1])
    for prop in props.split(","):
        r = subprocess.run(["./check", prop, "--tier", tier], cwd="/verif", env={**os.environ, "VERIF_REPO": scratch},
                           capture_output=True, text=True)
        lines = [l for l in (r.stdout + r.stderr).splitlines() if any(k in l for k in ("VIOLATION", "FATAL", "Traceback", "Error", "key:"))]
        print(f"{prop}: exit {r.returncode}", "|", (lines[1] if len(lines) > 1 else lines[0] if lines else "")[:260])
finally:
    shutil.rmtree(scratch, ignore_errors=True)
