#!/bin/bash
# tools/regress.sh <PROP>...  - re-run the quick check of each property against every archived
# seeded change of that property (in a scratch copy; /repo is never touched); prints one line each.
cd /verif
for P in "$@"; do
  for d in seeded/${P}_*; do
    [ -f "$d/patch.diff" ] || continue
    prop=$(python3 -c "import json;print(json.load(open('$d/meta.json')).get('breaks_property') or '$P')" 2>/dev/null || echo $P)
    r=$(tools/mutcheck.sh "/verif/$d" "$prop" quick --notests 2>&1 | grep "check exit" | head -1)
    echo "$(basename $d) [$prop] $r"
  done
done
