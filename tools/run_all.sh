#!/bin/bash
# tools/run_all.sh [tier]  - runs every registered check once, prints status and wall time
tier="${1:-quick}"
cd /verif
for p in $(/venv/bin/python -c "import json; print(' '.join(c['property_id'] for c in json.load(open('MANIFEST.json'))['checks']))"); do
  s=$(date +%s)
  out=$(./check $p --tier $tier 2>&1); rc=$?
  e=$(date +%s)
  echo "$p rc=$rc $((e-s))s $(echo "$out" | grep -cE '^VIOLATION') violations $(echo "$out" | grep -cE '^KNOWN-FINDING') known"
done
