"""Shared infrastructure for all checks: source binding, evidence, violations,
known findings, process pool.

Every check runs under /venv/bin/python with <repo>/src first on sys.path and
asserts that the imported uberjob really is the working tree.
"""
import hashlib
import json
import multiprocessing
import os
import random
import sys
import time
import traceback

VERIF = os.path.dirname(os.path.dirname(os.path.abspath(__file__)))
REPO = os.environ.get("VERIF_REPO", "/repo")
SRC = os.path.join(REPO, "src")
EVIDENCE_DIR = os.path.join(VERIF, "evidence")
REPLAY_DIR = os.path.join(VERIF, "replays")
KNOWN_FINDINGS = os.path.join(VERIF, "known_findings.json")

sys.dont_write_bytecode = True


def _fast_tmp():
    """Scratch files go to tmpfs when there is one (file-heavy checks are ~9x faster than on the disk-backed /tmp)."""
    import tempfile

    base = os.environ.get("VERIF_TMP")
    if not base and os.path.isdir("/dev/shm") and os.access("/dev/shm", os.W_OK):
        base = "/dev/shm"
    if base:
        tempfile.tempdir = base


def bootstrap():
    """Bind `import uberjob` to the working tree and prove it."""
    _fast_tmp()
    if sys.path[0] != SRC:
        sys.path.insert(0, SRC)
    for name in list(sys.modules):
        if name == "uberjob" or name.startswith("uberjob."):
            mod = sys.modules[name]
            f = getattr(mod, "__file__", "") or ""
            if not f.startswith(SRC + os.sep):
                del sys.modules[name]
    import uberjob

    f = os.path.realpath(uberjob.__file__)
    if not f.startswith(os.path.realpath(SRC) + os.sep):
        print(f"FATAL: uberjob imported from {f}, not from {SRC}", file=sys.stderr)
        sys.exit(2)
    return uberjob


def tree_hash():
    h = hashlib.sha256()
    root = os.path.join(SRC, "uberjob")
    for d, dirs, files in sorted(os.walk(root)):
        dirs.sort()
        for fn in sorted(files):
            if fn.endswith(".py"):
                p = os.path.join(d, fn)
                h.update(os.path.relpath(p, root).encode())
                with open(p, "rb") as fh:
                    h.update(fh.read())
    return h.hexdigest()[:16]


def seed():
    try:
        return int(os.environ.get("VERIF_SEED", "0"))
    except ValueError:
        return 0


def ncores():
    try:
        n = int(os.environ.get("VERIF_JOBS", "0"))
    except ValueError:
        n = 0
    return n or min(16, os.cpu_count() or 1)


# --------------------------------------------------------------------------
# violations / replays / known findings
# --------------------------------------------------------------------------


class Violation:
    """A concrete counterexample: which case, what the oracle said, how to replay."""

    def __init__(self, prop, key, message, replay):
        self.prop = prop
        self.key = key  # stable identification of the failing input / site / history
        self.message = message
        self.replay = replay  # JSON-able dict sufficient to re-run the case

    def to_json(self):
        return {
            "property": self.prop,
            "key": self.key,
            "message": self.message,
            "replay": self.replay,
        }


def load_known_findings(prop):
    """Return (open_findings, fixed_entries) for a property.

    open findings: list of dicts {"property", "match", "what"}; a violation is
    known iff its key starts with / equals `match`.
    """
    if not os.path.exists(KNOWN_FINDINGS):
        return [], []
    with open(KNOWN_FINDINGS) as fh:
        data = json.load(fh)
    open_ = [f for f in data.get("findings", []) if f.get("property") == prop]
    fixed = [f for f in data.get("fixed", []) if f.get("property") == prop]
    return open_, fixed


def write_replay(v):
    os.makedirs(REPLAY_DIR, exist_ok=True)
    blob = json.dumps(v.to_json(), sort_keys=True, default=repr)
    h = hashlib.sha256(blob.encode()).hexdigest()[:12]
    path = os.path.join(REPLAY_DIR, f"{v.prop}-{h}.json")
    with open(path, "w") as fh:
        json.dump(v.to_json(), fh, indent=1, sort_keys=True, default=repr)
    return path


def report(prop, violations, max_print=5):
    """Print VIOLATION / KNOWN-FINDING lines.  Returns number of *new* violations."""
    open_, _fixed = load_known_findings(prop)
    new = []
    known_hits = {}
    for v in violations:
        hit = None
        for f in open_:
            m = f["match"]
            if v.key == m or v.key.startswith(m):
                hit = f
                break
        if hit is not None:
            known_hits.setdefault(hit["match"], [hit, 0])[1] += 1
        else:
            new.append(v)
    for m, (f, n) in known_hits.items():
        print(f"KNOWN-FINDING: property={prop} {f['what']} (match={m}; {n} case(s) this run)")
    seen_keys = set()
    printed = 0
    for v in new:
        if v.key in seen_keys:
            continue
        seen_keys.add(v.key)
        if printed < max_print:
            path = write_replay(v)
            print(f"VIOLATION property={prop} replay={path}")
            print(f"  key: {v.key}")
            print(f"  {v.message}")
            printed += 1
    if len(seen_keys) > printed:
        print(f"  ... and {len(seen_keys) - printed} more distinct violating cases")
    return len(new)


# --------------------------------------------------------------------------
# evidence
# --------------------------------------------------------------------------


def write_evidence(prop, tier, level, coverage, wall_s, violations, assumptions=()):
    os.makedirs(EVIDENCE_DIR, exist_ok=True)
    cov = dict(coverage)
    cov.setdefault("source_root", SRC)
    cov.setdefault("source_tree_hash", tree_hash())
    ev = {
        "property_id": prop,
        "tier": tier,
        "seed": seed(),
        "level": level,
        "coverage": cov,
        "assumptions": list(assumptions),
        "wall_s": round(float(wall_s), 3),
        "violations": int(violations),
    }
    path = os.path.join(EVIDENCE_DIR, f"{prop}.json")
    tmp = path + ".tmp"
    with open(tmp, "w") as fh:
        json.dump(ev, fh, indent=1, sort_keys=True, default=repr)
    os.replace(tmp, path)
    return path


# --------------------------------------------------------------------------
# process pool
# --------------------------------------------------------------------------

_POOL_FN = {}


def _pool_entry(args):
    name, payload = args
    try:
        return ("ok", _POOL_FN[name](payload))
    except BaseException:  # noqa
        return ("err", traceback.format_exc())


def pmap(fn, payloads, jobs=None, chunksize=1, shuffle=True):
    """Run fn(payload) for every payload on a fork pool; returns results in input order.

    VERIF_SEED only permutes dispatch order; the explored set is unchanged.
    A worker exception is fatal (exit 2): a broken harness must never look like a pass.
    """
    payloads = list(payloads)
    name = f"{fn.__module__}.{fn.__qualname__}"
    _POOL_FN[name] = fn
    order = list(range(len(payloads)))
    if shuffle:
        random.Random(seed()).shuffle(order)
    jobs = jobs or ncores()
    results = [None] * len(payloads)
    if jobs <= 1 or len(payloads) <= 1:
        for i in order:
            st, r = _pool_entry((name, payloads[i]))
            if st == "err":
                print("FATAL: harness error\n" + r, file=sys.stderr)
                sys.exit(2)
            results[i] = r
        return results
    ctx = multiprocessing.get_context("fork")
    with ctx.Pool(min(jobs, len(payloads))) as pool:
        it = pool.imap(_pool_entry, [(name, payloads[i]) for i in order], chunksize)
        for pos, (st, r) in zip(order, it):
            if st == "err":
                print("FATAL: harness error in worker\n" + r, file=sys.stderr)
                pool.terminate()
                sys.exit(2)
            results[pos] = r
    return results


class Timer:
    def __init__(self):
        self.t0 = time.time()

    def s(self):
        return time.time() - self.t0
