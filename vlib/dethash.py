"""Deterministic hashing for uberjob graph nodes.

`Node` objects hash by address, and the default scheduler's tie-breaks iterate
over sets of nodes, so the pop order of ready nodes would differ between
executions and processes.  Hash values of objects are unspecified anyway; the
explorer owns this source of nondeterminism by giving every Node a serial
number as its hash: nodes built by a harness constructor get serials from 1,
nodes created during one execution (gather / read / write nodes made by `run`)
get serials from EXEC_BASE, re-started for every execution.  Equality stays
identity.
"""
EXEC_BASE = 1_000_000
_serial = {}
_counter = [0]
_installed = [False]


def install():
    if _installed[0]:
        return
    from uberjob import graph

    orig_init = graph.Node.__init__

    def __init__(self, *, scope=()):
        orig_init(self, scope=scope)
        _counter[0] += 1
        _serial[id(self)] = _counter[0]

    def __hash__(self):
        return _serial[id(self)]

    graph.Node.__init__ = __init__
    graph.Node.__hash__ = __hash__
    _installed[0] = True


def reset(base=0):
    _counter[0] = base


def begin_execution():
    _counter[0] = EXEC_BASE
