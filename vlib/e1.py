"""E1 - stateless model checker for the real thread-pool engine.

Real OS threads run the unmodified uberjob / stdlib `queue` code, but only one
of them runs at a time: every controlled thread owns a binary semaphore and the
baton is passed at *scheduling points*:

  * every operation of the replaced `threading` layer (Lock.acquire,
    Condition.wait, Thread.start/join, Event.set/wait),
  * bytecode-level points delivered by `sys.monitoring` INSTRUCTION events on
    selected code objects (shared-memory accesses of the engine),
  * harness points (call start / end ...),
  * value choices (random draws), timer firings and one asynchronous
    KeyboardInterrupt in the harness' main thread.

The search is a DFS over choice sequences by re-execution with separate
budgets per deviation kind (preempt / timer / interrupt / random).  Choice 0 is
always the zero-cost default (continue the running thread, else the lowest
enabled thread id).
"""
import dis
import sys
import threading as _rt
import types

_tls = _rt.local()
CUR = [None]  # the Sched of the execution in progress


class Abort(BaseException):
    """Raised inside controlled threads to unwind them after deadlock / horizon."""


class Divergence(Exception):
    """A recorded prefix could not be replayed: nondeterminism we do not own."""


class HarnessError(Exception):
    pass


class TState:
    __slots__ = (
        "tid", "name", "sem", "pred", "finished", "started", "steps", "sym", "real",
        "wake", "timeout_ok", "interruptible", "exc", "sched", "at", "sig", "joiners",
    )

    def __init__(self, sched, tid, name, sym):
        self.sched = sched
        self.tid = tid
        self.name = name
        self.sem = _rt.Semaphore(0)
        self.pred = None
        self.finished = False
        self.started = False
        self.steps = 0
        self.sym = sym
        self.real = None
        self.wake = "normal"
        self.timeout_ok = False
        self.interruptible = False
        self.exc = None
        self.at = "start"
        self.sig = None
        self.joiners = 0


class Sched:
    def __init__(self, prefix=(), horizon=4000, int_pred=None, bc=False, trace=False, startfail=False):
        self.startfail = startfail
        self.prefix = list(prefix)
        self.horizon = horizon
        self.int_pred = int_pred
        self.bc = bc
        self.threads = []
        self.current = None
        self.main = None
        self.points = []  # (ncosts:list[dict], chosen:int)
        self.sigs = [] if trace else None
        self.nsteps = 0
        self.aborting = False
        self.status = None  # 'ok' | 'deadlock' | 'horizon'
        self.done_evt = _rt.Event()
        self.main_result = None
        self.main_done_at = None
        self.deadlock_info = None
        self.events = []  # harness event log (single list: one thread runs at a time)
        self.interrupted_at = None
        self.uncaught = []
        self.symmetry = True
        self.main_reacted = False  # main performed its first Thread.join after the interrupt
        self.main_starved = False  # some other thread was chosen while main was enabled, between interrupt and reaction

    # -- thread management -------------------------------------------------
    def me(self):
        ts = getattr(_tls, "ts", None)
        if ts is None or ts.sched is not self:
            raise HarnessError("shim primitive used from an uncontrolled thread")
        return ts

    def spawn(self, fn, name=None, sym=None):
        ts = TState(self, len(self.threads), name or f"t{len(self.threads)}", sym)
        self.threads.append(ts)
        ts.real = _rt.Thread(target=self._thread_main, args=(ts, fn), daemon=True)
        ts.started = True
        ts.real.start()
        return ts

    def _thread_main(self, ts, fn):
        _tls.ts = ts
        ts.sem.acquire()
        try:
            if not self.aborting:
                fn()
        except Abort:
            pass
        except BaseException as e:  # noqa  uncaught exception in a controlled thread
            ts.exc = e
            self.uncaught.append((ts.name, repr(e)))
        finally:
            _tls.ts = None
            ts.finished = True
            if ts is self.main and self.main_done_at is None:
                self.main_done_at = len(self.events)
            if not self.aborting:
                try:
                    self._finish(ts)
                except Abort:
                    pass

    # -- choice machinery --------------------------------------------------
    def _take(self, opts, sig):
        k = len(self.points)
        if k < len(self.prefix):
            idx = self.prefix[k]
            if idx >= len(opts):
                self._abort("divergence")
                raise Divergence(f"choice {idx} at point {k} but only {len(opts)} options ({sig})")
        else:
            idx = 0
        self.points.append(([o[2] for o in opts], idx))
        if self.sigs is not None:
            self.sigs.append((sig, tuple((o[0], getattr(o[1], "tid", o[1])) for o in opts), idx))
        return idx

    def _enabled(self, t):
        return t.pred is None or t.pred()

    def _options(self, me):
        me_en = (not me.finished) and self._enabled(me)
        pre = {"preempt": 1} if me_en else {}
        opts = []
        seen_sym = set()
        if me_en:
            opts.append(("run", me, {}))
            if me.sym is not None:
                seen_sym.add((me.sym, me.sig, me.joiners))
        for t in self.threads:
            if t is me or t.finished:
                continue
            if self._enabled(t):
                if t.sym is not None:
                    # threads of one symmetry class (same target code and closure
                    # contents) parked with identical stacks and locals are
                    # interchangeable: offer only the lowest id
                    k = (t.sym, t.sig, t.joiners)
                    if k in seen_sym:
                        continue
                    seen_sym.add(k)
                # at a blocking point / thread exit the first enabled thread is the free default; picking
                # another one costs a "yield" (budgets without that key leave it unlimited, as before)
                opts.append(("run", t, pre if (me_en or not opts) else {"yield": 1}))
        for t in self.threads:
            if t.finished or not t.timeout_ok or t.pred is None or t.pred():
                continue
            c = {"timer": 1}
            if t is not me:
                c.update(pre)
            opts.append(("timeout", t, c))
        ip = self.int_pred
        if ip is not None and self.interrupted_at is None:
            m = self.main
            if not m.finished and (self._enabled(m) or m.interruptible) and ip(self):
                # the signal makes the calling thread run: covered by the interrupt budget alone
                opts.append(("int", m, {"interrupt": 1}))
        return opts

    def _reschedule(self, me):
        opts = self._options(me)
        if not opts:
            if all(t.finished for t in self.threads):
                self.status = "ok"
                self.done_evt.set()
                return "normal"
            self.deadlock_info = [
                (t.name, t.at) for t in self.threads if not t.finished
            ]
            self._abort("deadlock")
            raise Abort()
        idx = self._take(opts, (me.tid, me.at))
        kind, t, _ = opts[idx]
        if kind == "run":
            t.wake = "normal"
        elif kind == "timeout":
            t.wake = "timeout"
        else:
            t.wake = "interrupt"
            self.interrupted_at = len(self.events)
            self.events.append(("INTERRUPT", me.name, t.at))
        if self.interrupted_at is not None and not self.main_reacted and kind != "int":
            m = self.main
            if t is not m and not m.finished and (m is me and not me.finished and self._enabled(m) or m is not me and self._enabled(m)):
                self.main_starved = True
        self.current = t
        if t is not me:
            t.sem.release()
            if me.finished:
                return "normal"
            me.sem.acquire()
            if self.aborting:
                raise Abort()
        return me.wake

    def _finish(self, me):
        self._reschedule(me)

    def _abort(self, status):
        if self.aborting:
            return
        self.status = status
        self.aborting = True
        for t in self.threads:
            t.sem.release()
        self.done_evt.set()

    def point(self, at, pred=None, timeout_ok=False, interruptible=False):
        """Scheduling point of the calling (current) thread.  Returns the wake reason."""
        if self.aborting:
            raise Abort()
        me = self.me()
        if me is not self.current:
            raise HarnessError(f"thread {me.name} at a point but {self.current.name} is current")
        me.pred = pred
        me.timeout_ok = timeout_ok
        me.interruptible = interruptible
        me.at = at
        me.steps += 1
        if me.sym is not None and self.symmetry:
            me.sig = _stack_sig()
        self.nsteps += 1
        if self.nsteps > self.horizon:
            self._abort("horizon")
            raise Abort()
        r = self._reschedule(me)
        me.pred = None
        me.timeout_ok = False
        me.interruptible = False
        return r

    def choose_value(self, n, label, budget="random"):
        """Environment value choice (not a thread switch).  Option 0 is the default."""
        if self.aborting:
            raise Abort()
        if n <= 1:
            return 0
        opts = [("val", i, ({} if i == 0 else {budget: 1})) for i in range(n)]
        return self._take(opts, ("val", label))

    def log(self, *ev):
        self.events.append(ev)


_THIS = __file__


def _stack_sig():
    """Control stack + ids of locals of the calling thread, shim frames excluded."""
    f = sys._getframe(2)
    out = []
    while f is not None:
        co = f.f_code
        if co.co_filename == _THIS:
            if co.co_name == "_thread_main":
                break
        else:
            out.append((id(co), f.f_lasti, tuple(map(id, f.f_locals.values()))))
        f = f.f_back
    return tuple(out)


class FreeSched:
    """Stand-in for Sched when a harness body runs free on real threads (conformance runs)."""

    aborting = False

    def __init__(self):
        self.events = []
        self.ctx = None
        self.main_result = None
        self.uncaught = []
        self.deadlock_info = None

    def log(self, *ev):
        self.events.append(ev)

    def choose_value(self, n, label, budget="random"):
        import random as _r

        return _r.randrange(n)


def free_run(harness, timeout=60):
    """Run harness.body once on real threads, no scheduler.  Returns an Execution-like object."""
    s = FreeSched()
    CUR[0] = s
    x = Execution()
    try:
        ctx = harness.setup(s)
        s.ctx = ctx if s.ctx is None else s.ctx

        def body():
            try:
                s.main_result = ("ret", harness.body(ctx))
            except BaseException as e:  # noqa
                s.main_result = ("exc", e)

        before = set(_rt.enumerate())
        old_hook = _rt.excepthook

        def hook(args):
            s.uncaught.append((getattr(args.thread, "name", "?"), repr(args.exc_value)))

        _rt.excepthook = hook
        t = _rt.Thread(target=body, daemon=True)
        t.start()
        t.join(timeout)
        x.status = "ok" if not t.is_alive() else "deadlock"
        if x.status == "deadlock":
            s.deadlock_info = "free-running body did not return within %ss" % timeout
        else:
            leaked = [th for th in _rt.enumerate() if th not in before and th is not t and th.is_alive()]
            if leaked:
                s.uncaught.append(("leaked threads after return", repr(leaked)))
    finally:
        CUR[0] = None
        _rt.excepthook = old_hook
    x.points = []
    x.sched = s
    x.ctx = ctx
    return x


def sched():
    s = CUR[0]
    if s is None:
        raise HarnessError("no execution in progress")
    return s


def hpoint(at):
    """Harness-level scheduling point; delivers a pending KeyboardInterrupt."""
    s = CUR[0]
    if s is None or getattr(_tls, "ts", None) is None:
        return
    if s.point(at) == "interrupt":
        raise KeyboardInterrupt()


# --------------------------------------------------------------------------
# shim `threading`
# --------------------------------------------------------------------------


class Lock:
    def __init__(self):
        self.owner = None

    def acquire(self, blocking=True, timeout=-1):
        s = sched()
        if s.aborting:
            raise Abort()
        me = s.me()
        if not blocking:
            r = s.point("lock.try")
            if r == "interrupt":
                raise KeyboardInterrupt()
            if self.owner is None:
                self.owner = me
                return True
            return False
        r = s.point("lock.acquire", pred=lambda: self.owner is None, interruptible=True)
        if r == "interrupt":
            raise KeyboardInterrupt()
        assert self.owner is None
        self.owner = me
        return True

    def release(self):
        s = CUR[0]
        if s is None or s.aborting:
            self.owner = None
            return
        if self.owner is None:
            raise RuntimeError("release unlocked lock")
        self.owner = None

    def locked(self):
        return self.owner is not None

    __enter__ = acquire

    def __exit__(self, *a):
        self.release()


class RLock:
    def __init__(self):
        self.owner = None
        self.count = 0

    def acquire(self, blocking=True, timeout=-1):
        s = sched()
        if s.aborting:
            raise Abort()
        me = s.me()
        if self.owner is me:
            self.count += 1
            return True
        r = s.point("rlock.acquire", pred=lambda: self.owner is None, interruptible=True)
        if r == "interrupt":
            raise KeyboardInterrupt()
        self.owner = me
        self.count = 1
        return True

    def release(self):
        s = CUR[0]
        if s is None or s.aborting:
            self.owner = None
            self.count = 0
            return
        self.count -= 1
        if self.count == 0:
            self.owner = None

    __enter__ = acquire

    def __exit__(self, *a):
        self.release()


class Condition:
    def __init__(self, lock=None):
        self._lock = lock if lock is not None else RLock()
        self._waiters = []  # FIFO of [tstate, notified]
        self.acquire = self._lock.acquire
        self.release = self._lock.release

    def __enter__(self):
        return self._lock.__enter__()

    def __exit__(self, *a):
        return self._lock.__exit__(*a)

    def wait(self, timeout=None):
        s = sched()
        if s.aborting:
            raise Abort()
        me = s.me()
        lock = self._lock
        if lock.owner is not me:
            raise RuntimeError("cannot wait on un-acquired lock")
        saved = getattr(lock, "count", None)
        lock.owner = None
        if saved is not None:
            lock.count = 0
        w = [me, False]
        self._waiters.append(w)
        r = s.point(
            "cond.wait",
            pred=lambda: w[1] and lock.owner is None,
            timeout_ok=timeout is not None,
            interruptible=True,
        )
        if w in self._waiters:
            self._waiters.remove(w)
        if lock.owner is not None:
            # woken by timer / interrupt while the mutex is held: re-acquire first
            s.point("cond.reacquire", pred=lambda: lock.owner is None)
        lock.owner = me
        if saved is not None:
            lock.count = saved
        if r == "interrupt":
            raise KeyboardInterrupt()
        return r != "timeout"

    def wait_for(self, predicate, timeout=None):
        result = predicate()
        while not result:
            self.wait(timeout)
            result = predicate()
            if timeout is not None:
                break
        return result

    def notify(self, n=1):
        s = CUR[0]
        if s is not None and not s.aborting and self._lock.owner is not s.me():
            raise RuntimeError("cannot notify on un-acquired lock")
        k = 0
        for w in self._waiters:
            if k >= n:
                break
            if not w[1]:
                w[1] = True
                k += 1
        # notified waiters leave the FIFO; each keeps its own reference `w`
        self._waiters = [w for w in self._waiters if not w[1]]

    def notify_all(self):
        self.notify(len(self._waiters))


class Event:
    def __init__(self):
        self._flag = False

    def is_set(self):
        return self._flag

    def set(self):
        s = sched()
        if s.aborting:
            raise Abort()
        r = s.point("event.set")
        self._flag = True
        if r == "interrupt":
            raise KeyboardInterrupt()

    def clear(self):
        self._flag = False

    def wait(self, timeout=None):
        s = sched()
        if s.aborting:
            raise Abort()
        r = s.point(
            "event.wait", pred=lambda: self._flag, timeout_ok=timeout is not None,
            interruptible=True,
        )
        if r == "interrupt":
            raise KeyboardInterrupt()
        return self._flag


def _sym_of(target):
    code = getattr(target, "__code__", None)
    if code is None:
        return None
    cl = getattr(target, "__closure__", None) or ()
    try:
        return (code, tuple(id(c.cell_contents) for c in cl))
    except ValueError:
        return None


class Thread:
    _count = 0

    def __init__(self, group=None, target=None, name=None, args=(), kwargs=None, *, daemon=None):
        self._target = target
        self._args = args
        self._kwargs = kwargs or {}
        self.name = name
        self.daemon = daemon
        self._ts = None
        self.sym = _sym_of(target) if not args and not kwargs else None

    def run(self):
        if self._target is not None:
            self._target(*self._args, **self._kwargs)

    def start(self):
        s = sched()
        if s.aborting:
            raise Abort()
        if self._ts is not None:
            raise RuntimeError("threads can only be started once")
        if getattr(s, "startfail", False) and s.choose_value(2, "thread.start.refused", "startfail") == 1:
            # environment fault: the interpreter refuses to start another thread
            s.log("THREAD_START_REFUSED")
            raise RuntimeError("can't start new thread")
        self._ts = s.spawn(self.run, name=self.name, sym=self.sym)
        s.log("THREAD_START", self._ts.name)
        r = s.point("thread.start")
        if r == "interrupt":
            raise KeyboardInterrupt()

    def join(self, timeout=None):
        s = sched()
        if s.aborting:
            raise Abort()
        ts = self._ts
        if ts is None:
            raise RuntimeError("cannot join thread before it is started")
        s.log("JOIN_BEGIN", ts.name)
        if s.interrupted_at is not None and s.me() is s.main:
            s.main_reacted = True
        ts.joiners += 1
        try:
            r = s.point(
                "thread.join", pred=lambda: ts.finished, timeout_ok=timeout is not None,
                interruptible=True,
            )
        finally:
            ts.joiners -= 1
        if r == "interrupt":
            raise KeyboardInterrupt()

    def is_alive(self):
        return self._ts is not None and not self._ts.finished


def _current_thread():
    return getattr(_tls, "ts", None)


shim_threading = types.SimpleNamespace(
    Lock=Lock, RLock=RLock, Condition=Condition, Event=Event, Thread=Thread,
    current_thread=_current_thread, local=_rt.local, get_ident=_rt.get_ident,
)


class ChoiceRandom:
    """Replacement for the `random` module global of uberjob._execution.scheduler:
    every draw is a choice point of the running execution."""

    def __init__(self, budget="random"):
        self.budget = budget

    def shuffle(self, x):
        # enumerate all permutations through a sequence of Fisher-Yates choices;
        # choice 0 at every step keeps the list as it is.
        s = sched()
        for i in range(len(x) - 1, 0, -1):
            j = i - s.choose_value(i + 1, ("shuffle", i), self.budget)
            x[i], x[j] = x[j], x[i]

    def randrange(self, n):
        s = sched()
        return n - 1 - s.choose_value(n, ("randrange", n), self.budget)


# --------------------------------------------------------------------------
# bytecode-level points via sys.monitoring
# --------------------------------------------------------------------------

TOOL = 3
_bc_offsets = {}  # code -> frozenset(offsets that are points)
_installed = [False]


def nested_codes(code):
    out = [code]
    for c in code.co_consts:
        if isinstance(c, types.CodeType):
            out.extend(nested_codes(c))
    return out


def _mutable_cells(root_codes):
    stores = {}
    for code in root_codes:
        for ins in dis.get_instructions(code):
            if ins.opname in ("STORE_DEREF", "DELETE_DEREF"):
                stores[ins.argval] = stores.get(ins.argval, 0) + 1
    # a cell written at >= 2 sites (or deleted) is treated as shared mutable state
    return {n for n, k in stores.items() if k >= 2}


_SUBS = {"BINARY_SUBSCR", "STORE_SUBSCR", "DELETE_SUBSCR", "STORE_ATTR", "DELETE_ATTR",
         "STORE_GLOBAL", "DELETE_GLOBAL", "BINARY_SLICE", "STORE_SLICE"}


def shared_offsets(code, mutable):
    offs = set()
    for ins in dis.get_instructions(code):
        op = ins.opname
        if op in ("LOAD_DEREF", "STORE_DEREF", "DELETE_DEREF"):
            if ins.argval in mutable:
                offs.add(ins.offset)
        elif op in _SUBS:
            offs.add(ins.offset)
        elif op == "LOAD_ATTR" and not (ins.arg & 1):
            offs.add(ins.offset)
    return frozenset(offs)


def all_offsets(code):
    return frozenset(
        ins.offset for ins in dis.get_instructions(code)
        if ins.opname not in ("RESUME", "CACHE", "NOP", "COPY_FREE_VARS", "MAKE_CELL", "RETURN_GENERATOR")
    )


def _on_instr(code, offset):
    offs = _bc_offsets.get(code)
    if offs is None or offset not in offs:
        return sys.monitoring.DISABLE
    ts = getattr(_tls, "ts", None)
    if ts is None:
        return None
    s = ts.sched
    if not s.bc or s.aborting or s is not CUR[0] or ts.finished:
        return None
    r = s.point(("bc", code.co_name, offset))
    if r == "interrupt":
        raise KeyboardInterrupt()
    return None


def install_bc(roots, mode="shared"):
    """Make selected instructions of the given functions / code objects scheduling points.

    roots: functions or code objects; nested code objects are included.
    mode: 'shared' (accesses to closure cells written more than once, subscripts,
          attribute accesses) or 'all' (every instruction).
    """
    mon = sys.monitoring
    if not _installed[0]:
        mon.use_tool_id(TOOL, "verif-e1")
        mon.register_callback(TOOL, mon.events.INSTRUCTION, _on_instr)
        _installed[0] = True
    codes = []
    for r in roots:
        c = r if isinstance(r, types.CodeType) else getattr(r, "__wrapped__", r).__code__
        codes.extend(nested_codes(c))
    mutable = _mutable_cells(codes)
    n = 0
    for c in codes:
        offs = all_offsets(c) if mode == "all" else shared_offsets(c, mutable)
        prev = _bc_offsets.get(c, frozenset())
        _bc_offsets[c] = prev | offs
        mon.set_local_events(TOOL, c, mon.events.INSTRUCTION)
        n += len(offs)
    mon.restart_events()
    return n


# --------------------------------------------------------------------------
# one execution / DFS
# --------------------------------------------------------------------------


class Execution:
    __slots__ = ("points", "status", "sched", "ctx", "result", "error")

    def __init__(self):
        self.points = None
        self.status = None
        self.sched = None
        self.ctx = None
        self.result = None
        self.error = None

    def choices(self):
        return [p[1] for p in self.points]


def run_one(harness, prefix, trace=False):
    """Run harness once following `prefix`, default choices afterwards."""
    s = Sched(prefix, horizon=harness.horizon, int_pred=harness.int_pred, bc=harness.bc, trace=trace,
              startfail=getattr(harness, "startfail", False))
    CUR[0] = s
    x = Execution()
    try:
        ctx = harness.setup(s)

        def body():
            try:
                s.main_result = ("ret", harness.body(ctx))
            except Abort:
                raise
            except BaseException as e:  # noqa
                s.main_result = ("exc", e)
            s.main_done_at = len(s.events)

        main = s.spawn(body, name="main")
        s.main = main
        s.current = main
        main.sem.release()
        if not s.done_evt.wait(120):
            raise HarnessError("execution did not finish within 120 s (explorer bug or real hang)")
        for t in list(s.threads):
            t.real.join(20)
            if t.real.is_alive():
                raise HarnessError(f"controlled thread {t.name} did not unwind")
    finally:
        CUR[0] = None
    if s.status == "divergence":
        raise Divergence("prefix replay diverged")
    x.points = s.points
    x.status = s.status
    x.sched = s
    x.ctx = ctx
    return x


class Budget:
    def __init__(self, **kw):
        self.lim = dict(kw)  # kind -> max; missing kind -> unlimited

    def ok(self, used, cost):
        for k, c in cost.items():
            lim = self.lim.get(k)
            if lim is not None and used.get(k, 0) + c > lim:
                return False
        return True


def children(x, plen, budget):
    """All one-more-deviation prefixes of execution x beyond position plen."""
    out = []
    used = {}
    pts = x.points
    for i, (costs, chosen) in enumerate(pts):
        if i >= plen:
            for alt in range(len(costs)):
                if alt == chosen:
                    continue
                if budget.ok(used, costs[alt]):
                    out.append([p[1] for p in pts[:i]] + [alt])
        for k, c in costs[chosen].items():
            used[k] = used.get(k, 0) + c
    return out


class Stats:
    def __init__(self):
        self.executions = 0
        self.points = 0
        self.tree_nodes = 0
        self.max_points = 0
        self.outcomes = {}
        self.statuses = {}
        self.violations = []  # (message, choices)
        self.tagcount = {}
        self.capped = False

    def merge(self, o):
        self.executions += o.executions
        self.points += o.points
        self.tree_nodes += o.tree_nodes
        self.max_points = max(self.max_points, o.max_points)
        for k, v in o.outcomes.items():
            self.outcomes[k] = self.outcomes.get(k, 0) + v
        for k, v in o.statuses.items():
            self.statuses[k] = self.statuses.get(k, 0) + v
        self.violations.extend(o.violations)
        for k, v in o.tagcount.items():
            self.tagcount[k] = self.tagcount.get(k, 0) + v
        self.capped = self.capped or o.capped
        return self


def dfs(harness, root, budget, stats=None, max_exec=None, max_viol=3, expand_root=True):
    """Enumerate every execution whose choice list extends `root` within budget.

    If expand_root is False only the root execution is run and its children are
    returned (used by the master to shard the tree)."""
    stats = stats or Stats()
    stack = [list(root)]
    first = True
    pending = []
    while stack:
        p = stack.pop()
        x = run_one(harness, p)
        stats.executions += 1
        stats.points += len(x.points)
        stats.tree_nodes += len(x.points) - len(p) + 1
        stats.max_points = max(stats.max_points, len(x.points))
        stats.statuses[x.status] = stats.statuses.get(x.status, 0) + 1
        msgs, okey = harness.check(x)
        stats.outcomes[okey] = stats.outcomes.get(okey, 0) + 1
        if msgs:
            # keep up to max_viol full counterexamples (with schedule) per oracle tag
            keep = False
            for tag in {t for t, _ in msgs}:
                k = stats.tagcount.get(tag, 0)
                stats.tagcount[tag] = k + 1
                if k < max_viol:
                    keep = True
            if keep:
                stats.violations.append((msgs, x.choices()))
        ch = children(x, len(p), budget)
        if first and not expand_root:
            return stats, ch
        first = False
        stack.extend(reversed(ch))
        if max_exec is not None and stats.executions >= max_exec and stack:
            stats.capped = True
            break
    return stats, pending


class Harness:
    """Base class.  Subclasses provide setup(sched)->ctx, body(ctx), check(execution)->(msgs, outcome_key)."""

    horizon = 4000
    int_pred = None
    bc = False

    def setup(self, s):
        return None

    def body(self, ctx):
        raise NotImplementedError

    def check(self, x):
        return [], None


def determinism_selfcheck(harness, choices):
    """Replay one schedule twice; identical signatures and events are required."""
    a = run_one(harness, choices, trace=True)
    b = run_one(harness, choices, trace=True)
    if a.sched.sigs != b.sched.sigs:
        for i, (u, v) in enumerate(zip(a.sched.sigs, b.sched.sigs)):
            if u != v:
                raise Divergence(f"replay differs at point {i}: {u} vs {v}")
        raise Divergence("replay differs in length")
    ea = [e for e in a.sched.events]
    eb = [e for e in b.sched.events]
    if repr(ea) != repr(eb):
        raise Divergence("replay produced a different event log")
    return a
