"""Generic runner for properties decided by E1 explorations."""
from . import e1run, engine

ENGINE = "vlib.engine:EngineHarness"
PLAN = "vlib.planh:PlanHarness"

ASSUME = [
    "one CPython 3.12 bytecode on built-in objects is atomic (GIL build)",
    "the shim threading layer (Lock/Condition/Thread/Event) is faithful; bound by litmus tests and free-running conformance runs (C07 check)",
    "instructions that touch only frame-local state commute with other threads and are not scheduling points",
    "worker threads parked with identical control stacks and locals are interchangeable (symmetry reduction)",
]


def with_(cfgs, **kw):
    for c in cfgs:
        d = dict(c)
        d.update(kw)
        yield d


def run(prop, explorations, accept_tags=None, extra_cov=None, extra_viol=(), level="model_checking"):
    engine.install_engine_bc()
    aggs, per = [], []
    viols, notes = list(extra_viol), []
    for name, factory, cfgs, budget in explorations:
        cfgs = list(cfgs)
        if not cfgs:
            continue
        import os
        if os.environ.get("VERIF_ONLY") and os.environ["VERIF_ONLY"] not in name:
            continue  # sizing aid only
        if os.environ.get("VERIF_SKIP") and any(x and x in name for x in os.environ["VERIF_SKIP"].split("|")):
            continue  # sizing aid only
        import os
        cap = int(os.environ.get("VERIF_MAXEXEC", "0")) or None  # sizing aid only: a capped run reports exhaustive=false
        import sys, time
        t0 = time.time()
        a = e1run.explore(factory, cfgs, budget, max_exec=cap)
        if os.environ.get("VERIF_TIMING"):
            print(f"[timing] {time.time() - t0:7.1f}s  {a['executions']:>9} executions  {len(cfgs):>5} configs  capped={a['capped']}  {name}", file=sys.stderr, flush=True)
        v, nt = e1run.to_violations(prop, a, factory, budget, accept_tags)
        viols += v
        notes += nt
        per.append({"exploration": name, "configs": a["configs"], "executions": a["executions"],
                    "budget": budget, "statuses": a["statuses"], "distinct_outcomes": a["distinct_outcomes"],
                    "max_points_per_execution": a["max_points"], "capped": a["capped"]})
        aggs.append(a)
    tot = e1run.merge(aggs)
    cov = {
        "states": tot["tree_nodes"],
        "transitions": tot["points"],
        "traces_validated_against_impl": tot["executions"],
        "executions": tot["executions"],
        "configurations": tot["configs"],
        "distinct_outcomes": tot["distinct_outcomes"],
        "configs_with_multiple_outcomes": tot["configs_with_multiple_outcomes"],
        "explorations": per,
        "samples": tot["samples"][:3],
        "exhaustive": not tot["capped"],
        "rule": ("states = distinct nodes of the schedule tree (choice prefixes) within the stated budgets; "
                 "every execution runs the real engine code under the controlled scheduler, so every explored "
                 "trace is an implementation trace; distinct_outcomes counts distinct (status, call order, result kind) per configuration"),
    }
    if extra_cov:
        cov.update(extra_cov)
    return {"violations": viols, "notes": notes, "coverage": cov, "level": level, "assumptions": ASSUME}


def replay(prop, rep, accept_tags=None):
    engine.install_engine_bc()
    msgs = e1run.replay(rep)
    return [m for t, m in msgs if t == prop or (accept_tags and t in accept_tags)]
