"""Parallel driver for E1 explorations: shards (configuration x subtree) over a fork pool."""
import importlib
import json

from . import common, e1

_CACHE = {}


def _harness(factory, cfg):
    key = (factory, json.dumps(cfg, sort_keys=True, default=repr))
    h = _CACHE.get(key)
    if h is None:
        _CACHE.clear()  # keep one harness per process alive
        mod, name = factory.rsplit(":", 1)
        h = getattr(importlib.import_module(mod), name)(cfg)
        _CACHE[key] = h
    return h


def _summ(st, cfg, sample=None):
    return {
        "cfg": cfg,
        "executions": st.executions,
        "points": st.points,
        "tree_nodes": st.tree_nodes,
        "max_points": st.max_points,
        "outcomes": list(st.outcomes.keys()),
        "statuses": st.statuses,
        "violations": st.violations,
        "capped": st.capped,
        "sample": sample,
    }


def _task(payload):
    factory, cfg, budget, root, max_exec, expand = payload
    h = _harness(factory, cfg)
    b = e1.Budget(**budget)
    if not expand:
        st, ch = e1.dfs(h, root, b, expand_root=False)
        # determinism self-check on the default schedule of this configuration
        x = e1.determinism_selfcheck(h, [])
        sample = {"choices": x.choices()[:60], "events": [list(map(str, e)) for e in x.sched.events[:40]]}
        r = _summ(st, cfg, sample)
        r["children"] = ch
        return r
    st, _ = e1.dfs(h, root, b, max_exec=max_exec)
    return _summ(st, cfg)


def explore(factory, cfgs, budget, *, split_threshold=None, max_exec=None, jobs=None):
    """Explore every cfg completely within `budget`.

    Phase 1: the default execution of each configuration (+ twice-replay
    determinism self-check) and its one-deviation children.
    Phase 2: every child subtree as its own task (so large configurations are
    spread over all cores), or, for configurations with few children, the whole
    configuration as one task.
    Returns an aggregate dict.
    """
    cfgs = list(cfgs)
    roots = common.pmap(_task, [(factory, c, budget, [], None, False) for c in cfgs], jobs=jobs, chunksize=4)
    tasks = []
    for r in roots:
        ch = r.pop("children")
        if not ch:
            continue
        if split_threshold is not None and len(ch) <= split_threshold:
            # run all children of this configuration in one task, as a pseudo-root list
            for c in ch:
                tasks.append((factory, r["cfg"], budget, c, max_exec, True))
        else:
            for c in ch:
                tasks.append((factory, r["cfg"], budget, c, max_exec, True))
    subs = common.pmap(_task, tasks, jobs=jobs, chunksize=max(1, len(tasks) // (common.ncores() * 8) or 1))
    agg = {
        "configs": len(cfgs), "executions": 0, "points": 0, "tree_nodes": 0, "max_points": 0,
        "statuses": {}, "violations": [], "capped": False, "samples": [], "outcomes_per_cfg": {},
    }
    per_cfg = {}
    for r in list(roots) + list(subs):
        agg["executions"] += r["executions"]
        agg["points"] += r["points"]
        agg["tree_nodes"] += r["tree_nodes"]
        agg["max_points"] = max(agg["max_points"], r["max_points"])
        for k, v in r["statuses"].items():
            agg["statuses"][k] = agg["statuses"].get(k, 0) + v
        agg["capped"] = agg["capped"] or r["capped"]
        ck = json.dumps(r["cfg"], sort_keys=True, default=repr)
        per_cfg.setdefault(ck, set()).update(map(repr, r["outcomes"]))
        for msgs, choices in r["violations"]:
            agg["violations"].append((r["cfg"], msgs, choices))
        if r.get("sample") and len(agg["samples"]) < 3:
            agg["samples"].append({"cfg": r["cfg"], **r["sample"]})
    agg["distinct_outcomes"] = sum(len(v) for v in per_cfg.values())
    agg["configs_with_multiple_outcomes"] = sum(1 for v in per_cfg.values() if len(v) > 1)
    return agg


def merge(aggs):
    out = None
    for a in aggs:
        if out is None:
            out = dict(a)
            out["statuses"] = dict(a["statuses"])
            out["violations"] = list(a["violations"])
            out["samples"] = list(a["samples"])
            continue
        for k in ("configs", "executions", "points", "tree_nodes", "distinct_outcomes", "configs_with_multiple_outcomes"):
            out[k] += a[k]
        out["max_points"] = max(out["max_points"], a["max_points"])
        for k, v in a["statuses"].items():
            out["statuses"][k] = out["statuses"].get(k, 0) + v
        out["capped"] = out["capped"] or a["capped"]
        out["violations"].extend(a["violations"])
        out["samples"].extend(a["samples"][: max(0, 4 - len(out["samples"]))])
    return out


def to_violations(prop, agg, factory, budget, accept_tags=None):
    """Turn tagged oracle messages into Violation objects for `prop`; other tags are returned as notes."""
    vs, notes = [], []
    for cfg, msgs, choices in agg["violations"]:
        other = [(t, m) for t, m in msgs if not (t == prop or (accept_tags and t in accept_tags))]
        # one Violation per oracle tag of this execution (tags are separate classes of findings)
        for tag in dict.fromkeys(t for t, _ in msgs if t == prop or (accept_tags and t in accept_tags)):
            mine = [m for t, m in msgs if t == tag]
            key = json.dumps(cfg, sort_keys=True, default=repr) + " :: " + mine[0]
            vs.append(common.Violation(prop, key, "; ".join(mine[:3]), {
                "engine": "E1", "factory": factory, "cfg": cfg, "choices": choices, "budget": budget,
            }))
        for t, m in other:
            notes.append((t, m, cfg))
    return vs, notes


def replay(rep, verbose=True):
    """Re-run exactly one recorded schedule (no search)."""
    h = _harness(rep["factory"], rep["cfg"])
    x = e1.run_one(h, rep["choices"] or [], trace=True)
    msgs, okey = h.check(x)
    if verbose:
        print("status:", x.status)
        for e in x.sched.events:
            print("  ", e)
        for t, m in msgs:
            print(f"ORACLE[{t}]: {m}")
    return msgs
