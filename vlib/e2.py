"""E2 - explicit-state search over store states with the real uberjob.run as transition function.

A *plan spec* is a list of nodes in topological numbering:
    {"kind": K, "args": [i...], "deps": [i...], "target": j?}
kinds
    S  pure source          registry.source(plan, store)
    C  stored call          plan.call(f_i, *args); registry.add(call, store)
    U  unstored call        plan.call(f_i, *args)
    W  side-effecting call  unstored call that writes its term into the store of node `target` (a D)
    D  dependent source     registry.source(plan, store) with add_dependency(W, D)
    L  plan literal         plan.lit(("lit", i)) with add_dependency(dep, L); transparent for dependencies
    K  stored literal       plan.lit(("lit", i)) with registry.add(literal, store) (and optional dependencies)
    A  alias source         registry.source over the SAME stored slot as stored call `of`, with
                            add_dependency(of, A) (the "source dependent on write" idiom)
args are positional argument edges, deps plain add_dependency edges (a pair may have both).

State = contents of every store: missing | (logical time, value).  Nothing else
survives between runs.  The BFS keeps, for every canonical state, one concrete
snapshot (actual times and values); a transition rebuilds a fresh Plan, Registry
and stores from the snapshot, performs one event with the real `uberjob.run`,
evaluates the oracles and canonicalises the resulting snapshot.

Canonical form: time ranks + one bit per store "value equals the from-scratch
value for the current sources" (see DESIGN.md 3.E2 for the soundness argument).
"""
import datetime as dt
import os
import itertools

T0 = dt.datetime(2001, 1, 1)


class Boom(Exception):
    pass


class Death(BaseException):
    """Process death: every later operation raises too, nothing takes effect any more."""


# --------------------------------------------------------------------------
# spec helpers
# --------------------------------------------------------------------------

STORED = ("S", "C", "D", "K")  # kinds that own a stored slot
TIMED = ("S", "C", "D", "A", "K")  # kinds that have a value store (A shares the slot of its `of` node)


def slot(spec, i):
    return spec[i].get("of", i)


def targets(nd):
    """Stores a side-effecting producer writes (one index or a list)."""
    t = nd.get("target")
    if t is None:
        return []
    return list(t) if isinstance(t, (list, tuple)) else [t]


def spec_str(spec):
    out = []
    for i, nd in enumerate(spec):
        s = f"{i}:{nd['kind']}"
        if nd.get("args"):
            s += "(" + ",".join(map(str, nd["args"])) + ")"
        if nd.get("deps"):
            s += "<" + ",".join(map(str, nd["deps"])) + ">"
        if "target" in nd:
            s += f"->{nd['target']}"
        if "of" in nd:
            s += f"={nd['of']}"
        out.append(s)
    return " ".join(out)


def preds(spec, i):
    nd = spec[i]
    return list(nd.get("args", ())) + list(nd.get("deps", ()))


def ancestors(spec):
    anc = [set() for _ in spec]
    for i in range(len(spec)):
        for p in preds(spec, i):
            anc[i] |= anc[p] | {p}
    return anc


def successors(spec):
    """succ[i] = list of (j, kind) with kind 'a' (argument) or 'd' (plain dependency).

    Literal nodes are transparent: what depends on a literal depends (plainly) on everything the
    literal depends on; the literal itself is never listed as a successor."""
    raw = [[] for _ in spec]
    for j, nd in enumerate(spec):
        for p in nd.get("args", ()):
            raw[p].append((j, "a"))
        for p in nd.get("deps", ()):
            raw[p].append((j, "d"))
    succ = [None] * len(spec)
    for i in range(len(spec) - 1, -1, -1):
        out = []
        for j, kind in raw[i]:
            if spec[j]["kind"] == "L":
                out.extend((k, "d") for k, _ in succ[j])
            else:
                out.append((j, kind))
        succ[i] = out
    return succ


def eff_preds(spec, i):
    out = []
    for p in preds(spec, i):
        if spec[p]["kind"] == "L":
            out.extend(eff_preds(spec, p))
        else:
            out.append(p)
    return out


# --------------------------------------------------------------------------
# reference: from-scratch evaluation (independent of uberjob)
# --------------------------------------------------------------------------


def R(v, norm):
    return ("R", v) if norm else v


def scratch(spec, versions, norm):
    """Returns (stored, seen): value each store must hold / value consumers of node i receive."""
    stored, seen = {}, {}
    for i, nd in enumerate(spec):
        k = nd["kind"]
        if k == "S":
            stored[i] = ("src", i, versions[i])
            seen[i] = R(stored[i], norm)
        elif k == "D":
            seen[i] = R(stored[i], norm)
        elif k == "L":
            seen[i] = ("lit", i)
        elif k == "K":
            stored[i] = ("lit", i)
            seen[i] = R(stored[i], norm)
        elif k == "A":
            seen[i] = R(stored[nd["of"]], norm)
        else:
            v = ("f", i, tuple(seen[a] for a in nd.get("args", ())))
            if k == "C":
                stored[i] = v
                seen[i] = R(v, norm)
            else:
                seen[i] = v
                for t in targets(nd):
                    stored[t] = ("w", i, tuple(seen[a] for a in nd.get("args", ())))
    return stored, seen


# --------------------------------------------------------------------------
# reference: declarative out-of-date set and expected events
# --------------------------------------------------------------------------


def out_of_date(spec, snap, fresh, anc=None):
    """snap: {i: None | (time, value)} for stored nodes; fresh: number or None."""
    anc = anc or ancestors(spec)
    ood = set()
    for i, nd in enumerate(spec):
        k = nd["kind"]
        if k not in TIMED:
            continue
        cur = snap.get(slot(spec, i))
        if cur is None:
            ood.add(i)
            continue
        if anc[i] & ood:
            ood.add(i)
            continue
        t = cur[0]
        times = [snap[slot(spec, a)][0] for a in anc[i] if spec[a]["kind"] in TIMED and snap.get(slot(spec, a)) is not None]
        pure = k in ("S", "D", "A") and not times
        if pure:
            continue
        if fresh is not None and t < fresh:
            ood.add(i)
        elif any(ta > t for ta in times):
            ood.add(i)
    return ood


def expected_events(spec, ood, outset):
    """Returns dict with sets: calls (executed call nodes), writes, reads, sides."""
    succ = successors(spec)
    n = len(spec)
    ex = set()
    for i in range(n - 1, -1, -1):
        k = spec[i]["kind"]
        if k == "C":
            if i in ood:
                ex.add(i)
        elif k in ("U", "W"):
            need = i in outset
            for j, _ in succ[i]:
                kj = spec[j]["kind"]
                if kj in ("C", "U", "W") and j in ex:
                    need = True
                elif kj in ("S", "D", "A") and j in ood:
                    need = True
            if need:
                ex.add(i)
    writes = {i for i in ood if spec[i]["kind"] in ("C", "K")}
    reads = set()
    for i, nd in enumerate(spec):
        if nd["kind"] not in TIMED:
            continue
        if i in outset or any(kind == "a" and j in ex for j, kind in succ[i]):
            reads.add(i)
    sides = {t for i in ex for t in targets(spec[i])}
    return {"calls": ex, "writes": writes, "reads": reads, "sides": sides}


# --------------------------------------------------------------------------
# the world: fresh plan/registry/stores around a snapshot
# --------------------------------------------------------------------------


class World:
    def __init__(self, spec, snap, versions, clock, norm=False, order="topo"):
        import uberjob
        from uberjob import ValueStore

        self.uberjob = uberjob
        self.spec = spec
        self.snap = dict(snap)
        self.versions = dict(versions)
        self.clock = clock
        self.norm = norm
        self.order = order
        self.log = []
        self.nops = 0
        self.fault = None  # (k, kind)
        self.dead = False
        self.raised = []
        world = self

        class MemStore(ValueStore):
            __slots__ = ("i",)

            def __init__(self, i):
                self.i = i

            def read(self):
                world.op("read", self.i)
                cur = world.snap.get(slot(world.spec, self.i))
                if cur is None:
                    raise KeyError(f"store {self.i} is empty")
                return R(cur[1], world.norm)

            def write(self, value):
                world.op("write", self.i, value)
                world.clock += 1
                world.snap[slot(world.spec, self.i)] = (world.clock, value)
                world.op("write.done", self.i)

            def get_modified_time(self):
                world.op("mtime", self.i)
                cur = world.snap.get(slot(world.spec, self.i))
                return None if cur is None else T0 + dt.timedelta(seconds=cur[0])

            def __repr__(self):
                return f"MemStore({self.i})"

        self.MemStore = MemStore
        self.build()

    def op(self, kind, i, *extra):
        """One fault point + one log entry."""
        if self.dead:
            raise Death()
        self.nops += 1
        self.log.append((kind, i) + tuple(extra))
        f = self.fault
        if f is not None and self.nops == f[0]:
            if f[1] == "death":
                self.dead = True
                e = Death()
            else:
                e = Boom(f"injected at op {f[0]}")
            self.raised.append(e)
            self.log.append(("FAULT", kind, i))
            raise e

    def build(self):
        """order: 'topo' nodes and registry entries in topological order;
        'sources-first' every registry.source node is created before any call;
        'adds-late' every registry.add happens after the whole plan exists."""
        uberjob = self.uberjob
        spec = self.spec
        plan = uberjob.Plan()
        reg = uberjob.Registry()
        n = len(spec)
        nodes = [None] * n
        self.stores = {}
        idx = list(range(n))
        if self.order == "sources-first":
            idx = [i for i in idx if spec[i]["kind"] in ("S", "D", "A")] + [i for i in idx if spec[i]["kind"] not in ("S", "D", "A")]
        late = []
        for i in idx:
            nd = spec[i]
            k = nd["kind"]
            if k in ("S", "D", "A"):
                st = self.stores[i] = self.MemStore(i)
                node = reg.source(plan, st)
            elif k == "L":
                node = plan.lit(("lit", i))
            elif k == "K":
                node = plan.lit(("lit", i))
                st = self.stores[i] = self.MemStore(i)
                if self.order == "adds-late":
                    late.append((node, st))
                else:
                    reg.add(node, st)
            else:
                node = plan.call(self.make_fn(i), *[nodes[a] for a in nd.get("args", ())])
                if k == "C":
                    st = self.stores[i] = self.MemStore(i)
                    if self.order == "adds-late":
                        late.append((node, st))
                    else:
                        reg.add(node, st)
            nodes[i] = node
        for i in range(n):
            for d in spec[i].get("deps", ()):
                plan.add_dependency(nodes[d], nodes[i])
        for node, st in reversed(late):
            reg.add(node, st)
        self.plan, self.registry, self.nodes = plan, reg, nodes
        self.index = {n_: i for i, n_ in enumerate(nodes)}

    def make_fn(self, i):
        world = self
        nd = self.spec[i]

        def f(*args):
            world.op("call", i, args)
            tg = targets(nd)
            if tg:
                # several targets are written as one atomic step (no cut point between them): a producer of two
                # files that can be cut between them is a user-level atomicity problem no run can repair
                world.op("side", tg[0])
                for tgt in tg:
                    world.clock += 1
                    world.snap[tgt] = (world.clock, ("w", i, args))
                for tgt in tg[1:]:
                    world.log.append(("side", tgt))
                world.op("side.done", tg[0])
            world.log.append(("callend", i))
            return ("f", i, args)

        f.__name__ = f.__qualname__ = f"f{i}"
        return f

    def output_arg(self, out):
        if out is None:
            return None, set()
        if out == "all":
            # side-effecting producers (W) are never requested as output: running one on request
            # rewrites its target store outside the stale rule, which is the user's doing, not uberjob's
            idx = [i for i, nd in enumerate(self.spec) if nd["kind"] not in ("W", "L")]
            return [self.nodes[i] for i in idx], set(idx)
        return self.nodes[out], {out}

    def fresh_dt(self, fresh):
        return None if fresh is None else T0 + dt.timedelta(seconds=fresh)

    def run(self, out=None, fresh=None, fault=None, max_errors=0, scheduler=None, W=1, dry_run=False, capture=None, user_transform=False):
        self.fault = fault
        outarg, _ = self.output_arg(out)
        tp = None
        if capture is not None or user_transform:
            world = self

            def tp(p, o):
                if user_transform == "copy":
                    p = p.copy()  # a functional transformation: returns a new Plan, leaves its argument alone
                if user_transform:
                    # a user transformation of the physical plan: one extra call that runs after every other call
                    def transform_marker():
                        world.log.append(("call", "T"))
                        return "T"
                    others = [n for n in p.graph.nodes() if type(n).__name__ == "Call"]
                    extra = p.call(transform_marker)
                    for n in others:
                        p.add_dependency(n, extra)
                if capture is not None:
                    capture.append((p.copy(), o))
                return p, o
        box = []

        def target():
            try:
                r = self.uberjob.run(
                    self.plan, registry=self.registry, output=outarg, fresh_time=self.fresh_dt(fresh),
                    max_workers=W, max_errors=max_errors, progress=None, scheduler=scheduler, dry_run=dry_run,
                    transform_physical=tp,
                )
                box.append(("ret", r))
            except BaseException as e:  # noqa
                box.append(("exc", e))

        # watchdog: a run that never returns (e.g. a worker thread killed by a non-Exception failure while the
        # caller waits for the queue) must become a counterexample, not a hung check
        if RUN_TIMEOUT <= 0:  # watchdog disabled (timing experiments)
            target()
            self.fault = None
            return box[0]
        import threading as _th
        if _th.excepthook is not _quiet_excepthook:
            _quiet_excepthook.prev = _th.excepthook
            _th.excepthook = _quiet_excepthook
        t = _th.Thread(target=target, daemon=True)
        t.start()
        global _hang_seen
        t.join(RUN_TIMEOUT if not _hang_seen else min(2.0, RUN_TIMEOUT))
        if not box:
            _hang_seen = True
            self.hung = True
            self.fault = None
            return ("exc", RunHung(f"uberjob.run did not return within {RUN_TIMEOUT} s"))
        self.fault = None
        return box[0]


class RunHung(Exception):
    pass


def _quiet_excepthook(args):
    """An injected Death escaping a worker thread is reported by the oracles (the run hangs or misbehaves), not on stderr."""
    if args.exc_type is not None and args.exc_type.__name__ == "Death":
        return
    _quiet_excepthook.prev(args)


RUN_TIMEOUT = float(os.environ.get("VERIF_RUN_TIMEOUT", "30"))
_hang_seen = False  # once a run has hung in this process, later hangs are only waited for briefly


# --------------------------------------------------------------------------
# canonical form
# --------------------------------------------------------------------------


def canon(spec, snap, versions, norm=False):
    stored, _ = scratch(spec, versions, norm)
    items = sorted((v[0], i) for i, v in snap.items() if v is not None)
    rank = {i: r for r, (_, i) in enumerate(items)}
    out = []
    for i, nd in enumerate(spec):
        if nd["kind"] not in STORED:
            continue
        cur = snap.get(i)
        if cur is None:
            out.append(None)
        else:
            out.append((rank[i], cur[1] == stored.get(i)))
    return tuple(out)


def fresh_choices(snap):
    """None plus one value in every gap above an existing time (below all == None)."""
    ts = sorted(v[0] for v in snap.values() if v is not None)
    return [None] + [t + 0.5 for t in ts]


# --------------------------------------------------------------------------
# oracles on one RUN transition
# --------------------------------------------------------------------------


def check_run(spec, pre_snap, versions, world, res, out, fresh, anc, norm):
    """Oracles for a fault-free RUN.  Returns list of (tag, message)."""
    msgs = []
    log = world.log
    stored_ref, seen_ref = scratch(spec, versions, norm)
    ood = out_of_date(spec, pre_snap, fresh, anc)
    _, outset = world.output_arg(out)
    missing_pure = [i for i in ood if spec[i]["kind"] == "S" and pre_snap.get(i) is None]
    exp = expected_events(spec, ood, outset)
    # a missing pure source that somebody needs makes the run fail legitimately
    if res[0] == "exc":
        need_missing = [i for i in missing_pure if i in exp["reads"]]
        if need_missing:
            return msgs, ood, exp, True
        msgs.append(("C03", f"fault-free run raised {res[1]!r}"))
        return msgs, ood, exp, True
    calls = [e[1] for e in log if e[0] == "call"]
    writes = [e[1] for e in log if e[0] == "write"]
    reads = [e[1] for e in log if e[0] == "read"]
    sides = [e[1] for e in log if e[0] == "side"]
    # ---- C05: exactness
    if sorted(writes) != sorted(exp["writes"]):
        msgs.append(("C05", f"stores rewritten {sorted(writes)}, out-of-date stored values are {sorted(exp['writes'])} (ood={sorted(ood)})"))
    if sorted(calls) != sorted(exp["calls"]):
        msgs.append(("C05", f"calls executed {sorted(calls)}, expected exactly {sorted(exp['calls'])} (ood={sorted(ood)}, output={out})"))
    extra_reads = [i for i in reads if i not in exp["reads"]]
    if extra_reads:
        msgs.append(("C05", f"store(s) {sorted(extra_reads)} read although no executed call and not the output consumes them"))
    if len(reads) != len(set(reads)):
        msgs.append(("C05", f"a store was read more than once: {sorted(reads)}"))
    miss_reads = [i for i in exp["reads"] if i not in reads]
    if miss_reads:
        msgs.append(("C09", f"store(s) {sorted(miss_reads)} have an executed consumer / are the output but were not read"))
    if sorted(sides) != sorted(exp["sides"]):
        msgs.append(("C05", f"side-effecting producers of {sorted(sides)} ran, expected {sorted(exp['sides'])}"))
    # ---- C03: values
    post = world.snap
    for i, nd in enumerate(spec):
        if nd["kind"] in ("C", "D", "K"):
            cur = post.get(i)
            if cur is None:
                msgs.append(("C03", f"store {i} is empty after a successful run"))
            elif cur[1] != stored_ref[i]:
                msgs.append(("C03", f"store {i} holds {cur[1]!r} after a successful run, from-scratch value is {stored_ref[i]!r}"))
    if out is not None:
        expv = [seen_ref[i] for i in range(len(spec)) if spec[i]["kind"] not in ("W", "L")] if out == "all" else seen_ref[out]
        if res[1] != expv:
            msgs.append(("C03", f"run returned {res[1]!r}, from-scratch evaluation gives {expv!r}"))
    elif res[1] is not None:
        msgs.append(("C03", f"run without output returned {res[1]!r}"))
    # ---- C09: order and provenance
    pos = {}
    for p, e in enumerate(log):
        pos.setdefault((e[0], e[1]), p)
    succ = successors(spec)
    for e in log:
        if e[0] == "call":
            i = e[1]
            want = tuple(seen_ref[a] for a in spec[i].get("args", ()))
            if e[2] != want:
                msgs.append(("C09" if norm else "C03", f"call {i} received {e[2]!r}, expected {want!r} (values as returned by the stores' read)"))
    for i in writes:
        w = pos[("write.done", i)] if ("write.done", i) in pos else None
        if w is None:
            continue
        r = pos.get(("read", i))
        if r is not None and r < w:
            msgs.append(("C09", f"store {i} was read (pos {r}) before its rewrite completed (pos {w})"))
        for j, kind in succ[i]:
            cj = pos.get(("call", j))
            if spec[j]["kind"] in ("C", "U", "W") and cj is not None:
                if cj < w:
                    msgs.append(("C09", f"call {j} started before the rewrite of its {'argument' if kind == 'a' else 'dependency'} {i} completed"))
                if kind == "a" and (r is None or cj < r):
                    msgs.append(("C09", f"call {j} started before the rewritten value of {i} was read back"))
        for j in range(len(spec)):
            if i in anc[j] and spec[j]["kind"] in ("C", "K"):
                wj = pos.get(("write", j))
                if wj is None:
                    msgs.append(("C09", f"store {j} is downstream of rewritten store {i} but was not rewritten in the same run"))
                elif wj < w:
                    msgs.append(("C09", f"store {j} (downstream) was rewritten before store {i}"))
    for i in ood:
        if spec[i]["kind"] in ("D", "A") and ("read", i) in pos:
            r = pos[("read", i)]
            for p in eff_preds(spec, i):
                kp = spec[p]["kind"]
                if kp in ("C", "K"):
                    if p not in ood:
                        continue
                    wp = pos.get(("write.done", p))
                    if wp is None or wp > r:
                        msgs.append(("C09", f"out-of-date dependent source {i} was read before the rebuilt value {p} it depends on had been written"))
                elif kp in ("U", "W"):
                    endp = next((q for q, e in enumerate(log) if e[0] == "callend" and e[1] == p), None)
                    if endp is None or endp > r:
                        msgs.append(("C09", f"out-of-date dependent source {i} was read before the call {p} it depends on had run"))
    return msgs, ood, exp, False


def check_noop(world, res):
    msgs = []
    bad = [e for e in world.log if e[0] not in ("mtime",)]
    if res[0] != "ret":
        msgs.append(("C05", f"repeated run raised {res[1]!r}"))
    elif bad:
        msgs.append(("C05", f"run repeated immediately after a successful one performed {bad[:6]}"))
    return msgs


def check_cut(spec, versions, world, fresh, anc, pre_snap):
    """C08 invariant after a cut run (+ C06: nothing downstream of the failed operation's node starts afterwards)."""
    msgs = []
    if not world.dead:
        log = world.log
        for p, e in enumerate(log):
            if e[0] == "FAULT" and e[1] in ("call", "write", "write.done", "read", "side", "side.done"):
                i = e[2]
                owners = {i}
                if e[1].startswith("side"):
                    owners = {j for j, nd in enumerate(spec) if i in targets(nd)}  # the producer call failed
                if e[1] == "read":
                    # a failed read-back only concerns what consumes the VALUE (argument consumers and whatever is
                    # downstream of them); nodes that merely depend on i wait for its write only
                    succ = successors(spec)
                    first = {j for j, kind in succ[i] if kind == "a"}
                    blocked = set(first) | {j for j in range(len(spec)) if anc[j] & first}
                else:
                    blocked = {j for j in range(len(spec)) if anc[j] & owners}
                for q in range(p + 1, len(log)):
                    if log[q][0] == "call" and log[q][1] in blocked:
                        msgs.append(("C06", f"call {log[q][1]} was started although the {e[1]} of node {sorted(owners)} it depends on had raised"))
                break
    stored_ref, _ = scratch(spec, versions, world.norm)
    post = world.snap
    for fr in {None, fresh}:
        ood = out_of_date(spec, post, fr, anc)
        for i, nd in enumerate(spec):
            if nd["kind"] not in ("C", "D", "K"):
                continue
            cur = post.get(i)
            if cur is None or i in ood:
                continue
            if cur[1] != stored_ref[i]:
                msgs.append(("C08", f"after the cut store {i} looks up to date (fresh_time={fr}) but holds {cur[1]!r}, from-scratch value is {stored_ref[i]!r}"))
    # values written completely during the cut run must not look out of date afterwards
    ood = out_of_date(spec, post, fresh, anc)
    done = [e[1] for e in world.log if e[0] == "write.done"]
    for i in done:
        if i in ood and post.get(i) is not None:
            msgs.append(("C08", f"store {i} was completely written before the cut but the next run would rebuild it again (ood={sorted(ood)})"))
    return msgs


# --------------------------------------------------------------------------
# BFS to fixpoint
# --------------------------------------------------------------------------


class Result:
    def __init__(self):
        self.states = 0
        self.transitions = 0
        self.runs = 0
        self.violations = []  # (tag, msg, history)
        self.capped = False
        self.max_depth = 0
        self.samples = []
        self.kinds = {}


def initial_state(spec):
    snap, versions = {}, {}
    clock = 0
    for i, nd in enumerate(spec):
        if nd["kind"] == "S":
            clock += 1
            versions[i] = 0
            snap[i] = (clock, ("src", i, 0))
        elif nd["kind"] in ("C", "D", "K"):
            snap[i] = None
    return snap, versions, clock


def events_for(spec, snap, opts):
    """The event menu of one state (without FAILRUN, which needs op counts)."""
    n = len(spec)
    outs = [None] + [i for i in range(n) if spec[i]["kind"] not in ("W", "L")] + ["all"]
    if opts.get("outs") == "few":
        outs = [None, n - 1, "all"]
    ev = []
    for out in outs:
        for fr in fresh_choices(snap):
            ev.append(("RUN", out, fr))
    for i, nd in enumerate(spec):
        if nd["kind"] == "S":
            ev.append(("UPDATE", i))
        # "deletions of stored values": values stored by runs (C, D).  A pure source that is
        # missing is absent user input, not a state a run can repair (DESIGN.md, C05 notes).
        if nd["kind"] in ("C", "D", "K") and snap.get(i) is not None and not nd.get("keep"):
            ev.append(("DELETE", i))
    return ev


def apply_event(spec, state, ev, anc, norm, res, hist, twin=None):
    """Apply one event to a concrete state; returns list of (new_state) and records oracles."""
    snap, versions, clock = state
    kind = ev[0]
    if kind == "UPDATE":
        i = ev[1]
        v2 = dict(versions)
        v2[i] += 1
        s2 = dict(snap)
        s2[i] = (clock + 1, ("src", i, v2[i]))
        return (s2, v2, clock + 1)
    if kind == "DELETE":
        s2 = dict(snap)
        s2[ev[1]] = None
        return (s2, versions, clock)
    raise ValueError(kind)


class ScriptRandom:
    """Replacement for the `random` module global of uberjob._execution.scheduler: every draw
    follows a scripted choice sequence (default choice 0), so that all pop orders of the
    'random' scheduler can be enumerated by DFS over choice sequences."""

    def __init__(self, prefix=()):
        self.prefix = list(prefix)
        self.trace = []  # (n, chosen)
        self.diverged = False

    def choose(self, n):
        k = len(self.trace)
        c = self.prefix[k] if k < len(self.prefix) else 0
        if c >= n:
            # only legitimate after an injected fault changed the rest of the run (FAILRUN);
            # pop_orders() treats it as a hard error for fault-free runs
            self.diverged = True
            c = 0
        self.trace.append((n, c))
        return c

    def shuffle(self, x):
        for i in range(len(x) - 1, 0, -1):
            j = i - self.choose(i + 1)
            x[i], x[j] = x[j], x[i]

    def randrange(self, n):
        return n - 1 - self.choose(n)


class scripted:
    """Context manager installing a ScriptRandom in the scheduler module."""

    def __init__(self, prefix):
        self.prefix = prefix

    def __enter__(self):
        import uberjob._execution.scheduler as sch

        self.sch = sch
        self.old = sch.random
        if self.prefix is None:
            return None
        self.script = ScriptRandom(self.prefix)
        sch.random = self.script
        return self.script

    def __exit__(self, *a):
        self.sch.random = self.old
        return False


def step(spec, state, ev, anc, norm, do_dry=False, order="topo"):
    """Apply one event to a concrete state with the real implementation.

    RUN events: ("RUN", out, fresh[, pops]); FAILRUN: ("FAILRUN", out, fresh, k, kind, max_errors[, pops]);
    pops = choice prefix for the 'random' scheduler (None = default scheduler).
    Returns (new_state, msgs, info); info has 'nops', 'failed', 'world', 'runs', 'trace'."""
    snap, versions, clock = state
    kind = ev[0]
    if kind in ("UPDATE", "DELETE"):
        return apply_event(spec, state, ev, anc, norm, None, None), [], {"runs": 0}
    if kind == "RUN":
        _, out, fr = ev[:3]
        pops = ev[3] if len(ev) > 3 else None
        w = World(spec, snap, versions, clock, norm, order)
        with scripted(pops) as sc:
            r = w.run(out=out, fresh=fr, scheduler=None if pops is None else "random")
        runs = 1
        if getattr(w, "hung", False):
            return None, [("HANG", f"run {ev!r} never returned: {r[1]}")], {"runs": 1, "skipped": True}
        msgs, ood, exp, failed = check_run(spec, snap, versions, w, r, out, fr, anc, norm)
        post = (dict(w.snap), versions, w.clock)
        if not failed and pops is None:
            w2 = World(spec, post[0], versions, post[2], norm, order)
            r2 = w2.run(out=None, fresh=fr)
            runs += 1
            msgs += [(t, "[repeat] " + m) for t, m in check_noop(w2, r2)]
            if do_dry:
                msgs += check_dry(spec, state, post, w, r, out, fr, norm, order)
                runs += 2
        if sc is not None and sc.diverged:
            raise RuntimeError(f"pop-order replay diverged on a fault-free run: {pops} on {spec_str(spec)}")
        return post, msgs, {"runs": runs, "nops": w.nops, "failed": failed, "world": w, "ood": ood,
                            "trace": sc.trace if sc else None}
    if kind == "FAILRUN":
        _, out, fr, k, fkind, me = ev[:6]
        pops = ev[6] if len(ev) > 6 else None
        wf = World(spec, snap, versions, clock, norm, order)
        with scripted(pops) as sc:
            rf = wf.run(out=out, fresh=fr, fault=(k, fkind), max_errors=me, scheduler=None if pops is None else "random")
        msgs = []
        if getattr(wf, "hung", False):
            return None, [("HANG", f"run with a failure injected ({ev!r}) never returned: {rf[1]}")], {"runs": 1, "skipped": True}
        if not wf.raised:
            return None, [], {"runs": 1, "skipped": True}
        if rf[0] == "ret":
            msgs.append(("C06", f"run returned normally although operation {k} raised"))
        msgs += check_cut(spec, versions, wf, fr, anc, snap)
        return (dict(wf.snap), versions, wf.clock), msgs, {"runs": 1, "world": wf}
    raise ValueError(kind)


def pop_orders(spec, state, out, fr, anc, norm, order, cap=4000):
    """Every execution of RUN(out, fr) under the 'random' scheduler with one worker: DFS over the
    scheduler's draws.  Yields (prefix, post_state, msgs, info) once per distinct operation log."""
    stack = [[]]
    seen_logs = set()
    n = 0
    while stack:
        pre = stack.pop()
        post, msgs, info = step(spec, state, ("RUN", out, fr, pre), anc, norm, order=order)
        n += 1
        if post is None:
            yield pre, None, msgs, {"runs": 1, "hung": True}
            return
        tr = info["trace"]
        for pos in range(len(pre), len(tr)):
            for alt in range(1, tr[pos][0]):
                stack.append([c for _, c in tr[:pos]] + [alt])
        key = tuple((e[0], e[1]) for e in info["world"].log)
        if key not in seen_logs:
            seen_logs.add(key)
            yield [c for _, c in tr], post, msgs, info
        if n >= cap:
            yield None, None, [], {"capped": True, "runs": 0}
            return


def explore(spec, opts=None, norm=False):
    """BFS over canonical states of `spec` to a fixpoint.  opts keys:
    outs: 'all'|'few'; failruns: bool; max_states; dry (C14 twin check);
    order: plan/registry creation order; pops: also enumerate every pop order of the
    'random' scheduler (1 worker) for RUN(None|all, no fresh_time) and cut every one of them at every k"""
    opts = opts or {}
    anc = ancestors(spec)
    res = Result()
    s0 = initial_state(spec)
    c0 = canon(spec, s0[0], s0[1], norm)
    seen = {c0: ([], s0)}
    frontier = [c0]
    max_states = opts.get("max_states", 5000)
    do_fail = opts.get("failruns", True)
    do_dry = opts.get("dry", False)
    order = opts.get("order", "topo")
    do_pops = opts.get("pops", False)
    fail_outs = opts.get("fail_outs", (None, "all"))
    fail_combos = opts.get("fail_combos", "all")
    res.pop_orders = 0

    res.hung = False

    def viol(msgs, hist):
        for t, m in msgs:
            res.violations.append((t, m, hist))
            if t == "HANG":
                res.hung = True  # every further run from here may cost a watchdog timeout: stop exploring this plan

    res.quotient_pairs = 0
    res.quotient_mismatch = []
    checked_pairs = {}

    def visit(state, hist):
        c = canon(spec, state[0], state[1], norm)
        res.transitions += 1
        if c not in seen:
            if len(seen) >= max_states:
                res.capped = True
                return
            seen[c] = (hist, state)
            frontier.append(c)
            res.max_depth = max(res.max_depth, len(hist))
        elif checked_pairs.get(c, 0) < 2 and _concrete_key(state) != _concrete_key(seen[c][1]):
            # two different concrete states were merged: their futures must agree (one step, two events)
            checked_pairs[c] = checked_pairs.get(c, 0) + 1
            res.quotient_pairs += 1
            for ev in (("RUN", None, None), ("RUN", "all", None)):
                pa, _, ia = step(spec, seen[c][1], ev, anc, norm, False, order)
                pb, _, ib = step(spec, state, ev, anc, norm, False, order)
                res.runs += ia["runs"] + ib["runs"]
                # (the relative order of unordered operations depends on address-based tie-breaks of the default
                #  scheduler and is not compared: multiset of operations + presence/correctness of every store)
                def bits(p):
                    return tuple(x if x is None else x[1] for x in canon(spec, p[0], p[1], norm))
                ka = (bits(pa), sorted((e[0], e[1]) for e in ia["world"].log))
                kb = (bits(pb), sorted((e[0], e[1]) for e in ib["world"].log))
                if ka != kb:
                    res.quotient_mismatch.append((c, seen[c][0], hist, ev))

    def failruns(hist, state, out, fr, nops, pops=None):
        for k in range(1, nops + 1):
            for fkind, me in (("exc", 0), ("exc", None), ("death", 0)):
                if res.hung:
                    return
                fev = ["FAILRUN", out, fr, k, fkind, me] + ([pops] if pops is not None else [])
                postf, msgsf, inf = step(spec, state, fev, anc, norm, order=order)
                res.runs += inf["runs"]
                if postf is None:
                    viol(msgsf, hist + [fev])  # (only a run that never returned has messages here)
                    continue  # the k-th operation did not happen under this error policy
                res.kinds["FAILRUN"] = res.kinds.get("FAILRUN", 0) + 1
                hf = hist + [fev]
                viol(msgsf, hf)
                visit(postf, hf)

    while frontier and not res.hung:
        c = frontier.pop(0)
        hist, state = seen[c]
        snap = state[0]
        for ev in events_for(spec, snap, opts):
            if res.hung:
                break
            res.kinds[ev[0]] = res.kinds.get(ev[0], 0) + 1
            h2 = hist + [list(ev)]
            post, msgs, info = step(spec, state, ev, anc, norm, do_dry, order)
            res.runs += info["runs"]
            viol(msgs, h2)
            if post is None:
                continue  # the run never returned (reported above)
            visit(post, h2)
            if ev[0] != "RUN":
                continue
            _, out, fr = ev
            w = info["world"]
            if len(res.samples) < 2 and w.log and len(hist) >= 1:
                res.samples.append({"history": h2, "log": [list(map(repr, e)) for e in w.log[:12]], "out_of_date": sorted(info["ood"])})
            # ---- FAILRUN: every cut position of this run
            top = max(fresh_choices(snap)[1:] or [None])
            if fail_combos == "few":
                fail_here = (out is None and fr is None) or (out == "all" and fr == top)
            else:
                fail_here = out in fail_outs and (fr is None or fr == top)
            if do_fail and fail_here and not do_pops:
                failruns(hist, state, out, fr, info["nops"])
            # ---- every pop order of the random scheduler, each cut at every k
            if do_pops and fr is None and out in (None, "all") and not info["failed"]:
                for pre, postp, msgsp, infp in pop_orders(spec, state, out, fr, anc, norm, order):
                    if pre is None:
                        res.capped = True
                        break
                    res.pop_orders += 1
                    res.runs += infp["runs"]
                    hp = hist + [["RUN", out, fr, pre]]
                    viol(msgsp, hp)
                    if postp is None:
                        break  # the run never returned (reported above)
                    visit(postp, hp)
                    if do_fail:
                        failruns(hist, state, out, fr, infp["nops"], pops=pre)
    res.states = len(seen)
    res.seen = seen
    return res


def _concrete_key(state):
    snap, versions, _ = state
    return (tuple(sorted((i, v) for i, v in snap.items() if v is not None)), tuple(sorted(versions.items())))


def replay_history(spec, hist, norm=False, do_dry=False, verbose=False, order="topo"):
    """Re-execute a concrete history from the initial state; returns oracle messages of the last event."""
    anc = ancestors(spec)
    state = initial_state(spec)
    msgs = []
    for ev in hist:
        ev = tuple(ev)
        post, msgs, info = step(spec, state, ev, anc, norm, do_dry, order)
        if verbose:
            print("EVENT", ev)
            w = info.get("world")
            if w is not None:
                for e in w.log:
                    print("    ", e)
            print("   state:", post and post[0])
        if post is None:
            break
        state = post
    return msgs


def _plan_signatures(plan, onode):
    """Multiset of structural node signatures (label + signatures of predecessors with edge keys); DAG only."""
    from uberjob.graph import Call

    g = plan.graph
    memo = {}

    def label(n):
        if type(n) is Call:
            return ("call", getattr(n.fn, "__qualname__", repr(n.fn)), tuple(map(repr, n.scope)))
        return ("lit", repr(getattr(n, "value", None)), tuple(map(repr, n.scope)))

    def sig(n):
        if n not in memo:
            memo[n] = None  # cycle guard
            ins = sorted((type(k).__name__, getattr(k, "index", None), getattr(k, "name", None), sig(u)) for u, _, k in g.in_edges(n, keys=True))
            memo[n] = hash((label(n), tuple(ins), n is onode))
        return memo[n]

    out = {}
    for n in g.nodes():
        s_ = (sig(n), label(n))
        out[s_] = out.get(s_, 0) + 1
    return out


def plan_diff(real_plan, real_out, dry_plan, dry_out):
    a = _plan_signatures(real_plan, real_out)
    b = _plan_signatures(dry_plan, dry_out)
    if a == b:
        return None
    only_a = [k[1] for k in a if a[k] != b.get(k, 0)]
    only_b = [k[1] for k in b if b[k] != a.get(k, 0)]
    return f"nodes (with their dependency structure) only in the real plan: {only_a[:4]}; only in the dry-run plan: {only_b[:4]}"


# --------------------------------------------------------------------------
# C14: dry run twin
# --------------------------------------------------------------------------


def check_dry(spec, state, post_real, w_real, r_real, out, fr, norm, order="topo"):
    msgs = []
    snap, versions, clock = state
    wb = World(spec, snap, versions, clock, norm, order)
    rb = wb.run(out=out, fresh=fr, dry_run=True)
    bad = [e for e in wb.log if e[0] != "mtime"]
    if rb[0] != "ret":
        msgs.append(("C14", f"dry run raised {rb[1]!r} where the real run succeeded"))
        return msgs
    if bad:
        msgs.append(("C14", f"dry run touched stores / ran calls: {bad[:6]}"))
    if wb.snap != snap:
        msgs.append(("C14", "dry run changed store contents"))
    try:
        pplan, onode = rb[1]
    except Exception:  # noqa
        msgs.append(("C14", f"dry run returned {rb[1]!r}, not (plan, output node)"))
        return msgs
    if (onode is None) != (out is None):
        msgs.append(("C14", f"dry run output node is {onode!r} for output={out!r}"))
    # the physical plan the real run executes (captured through transform_physical in a third twin world)
    wc = World(spec, snap, versions, clock, norm, order)
    cap = []
    rc = wc.run(out=out, fresh=fr, capture=cap)
    if rc[0] == "ret" and cap:
        d = plan_diff(cap[0][0], cap[0][1], pplan, onode)
        if d:
            msgs.append(("C14", "the plan returned by the dry run differs from the physical plan the real run executes: " + d))
    # the same with a user transform_physical (in place, and functional = returning a new Plan): the dry run
    # must return the TRANSFORMED plan, and the transformed plan is what the real run executes
    for ut in ((True, "copy") if fr is None else ()):  # (independent of the fresh_time argument: explored without it)
        how = "in-place" if ut is True else "copying"
        wd = World(spec, snap, versions, clock, norm, order)
        rd = wd.run(out=out, fresh=fr, dry_run=True, user_transform=ut)
        we = World(spec, snap, versions, clock, norm, order)
        cap2 = []
        re_ = we.run(out=out, fresh=fr, capture=cap2, user_transform=ut)
        if rd[0] == "ret" and re_[0] == "ret" and cap2:
            if [e for e in wd.log if e[0] != "mtime"]:
                msgs.append(("C14", f"dry run with {how} transform_physical touched stores / ran calls: {[e for e in wd.log if e[0] != 'mtime'][:4]}"))
            try:
                d = plan_diff(cap2[0][0], cap2[0][1], rd[1][0], rd[1][1])
            except Exception as e:  # noqa
                d = f"dry run returned {rd[1]!r} ({e!r})"
            if d:
                msgs.append(("C14", f"with {how} transform_physical: the plan returned by the dry run differs from the transformed plan the real run executes: " + d))
            nt = sum(1 for e in we.log if e[:2] == ("call", "T"))
            if nt != 1:
                msgs.append(("C14", f"with {how} transform_physical: the dry run returns the transformed plan, but the real run executed the call added by the transformation {nt} times"))
        elif rd[0] != re_[0]:
            msgs.append(("C14", f"with {how} transform_physical: dry run gave {rd[0]}, real run gave {re_[0]}"))
    del wb.log[:]
    nodes = list(pplan.graph.nodes())
    try:
        vals = wb.uberjob.run(pplan, output=nodes, max_workers=1, progress=None)
        rr = ("ret", vals)
    except BaseException as e:  # noqa
        rr = ("exc", e)
    if rr[0] != "ret":
        msgs.append(("C14", f"executing the dry-run plan by itself raised {rr[1]!r}"))
        return msgs

    def multiset(log):
        return sorted((e[0], e[1]) for e in log if e[0] in ("call", "read", "write", "side"))

    if multiset(wb.log) != multiset(w_real.log):
        msgs.append(("C14", f"dry-run plan performed {multiset(wb.log)}, the real run {multiset(w_real.log)}"))
    if onode is not None and not any(n is onode for n in nodes):
        msgs.append(("C14", f"the output node returned by the dry run ({onode!r}) is not a node of the returned physical plan"))
    elif onode is not None:
        v = vals[next(k for k, n in enumerate(nodes) if n is onode)]
        if v != r_real[1]:
            msgs.append(("C14", f"dry-run plan output {v!r} differs from the real run's {r_real[1]!r}"))
    # (times of unordered writes may legitimately differ between the two executions: compare values)
    if {i: v and v[1] for i, v in wb.snap.items()} != {i: v and v[1] for i, v in post_real[0].items()}:
        msgs.append(("C14", "final store state after executing the dry-run plan differs from the real run's"))
    # ordering constraints of the physical plan: the same C09 checks on the twin's log
    anc = ancestors(spec)
    m2, *_ = check_run(spec, snap, versions, wb, ("ret", r_real[1]), out, fr, anc, norm)
    for t, m in m2:
        if t in ("C09", "C05"):
            msgs.append(("C14", "dry-run plan executed alone: " + m))
    return msgs
