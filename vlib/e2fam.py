"""Plan families for E2: exhaustive small families plus curated shapes."""
import itertools


def _build(kinds, edges, attach):
    """kinds: tuple over slots of 'C','U','P' (P = side-effecting producer W + dependent source D);
    edges[(i,j)] in (None,'a','d','ad') for slots i<j; attach[j] in (None,'a','d') from the pure source."""
    spec = []
    has_src = any(a for a in attach)
    if has_src:
        spec.append({"kind": "S"})
    out_idx = []  # index of the node that represents slot i towards later slots
    in_arg = []   # node index that receives argument edges of slot j
    in_dep = []   # node index that receives plain dependency edges of slot j
    for j, k in enumerate(kinds):
        if k == "P":
            wi = len(spec)
            spec.append({"kind": "W", "args": [], "deps": [], "target": wi + 1})
            spec.append({"kind": "D", "deps": [wi]})
            out_idx.append(wi + 1)
            in_arg.append(wi)
            # plain dependencies of a P slot go to its producer: a dependent source is well formed only
            # if everything it depends on is also upstream of the call that writes it (otherwise the
            # producer may legitimately run before an upstream write and the source is born out of date)
            in_dep.append(wi)
        elif k == "Q":
            # stored call + a source over the same store that depends on it ("source dependent on write")
            ci = len(spec)
            spec.append({"kind": "C", "args": [], "deps": []})
            spec.append({"kind": "A", "of": ci, "deps": [ci]})
            out_idx.append(ci + 1)
            in_arg.append(ci)
            in_dep.append(ci)
        else:
            spec.append({"kind": k, "args": [], "deps": []})
            if k == "L":
                # a literal only takes plain dependencies and must have at least one (else it is a plain constant)
                inc = [attach[j]] + [edges.get((i, j)) for i in range(j)]
                if any(e and "a" in e for e in inc) or not any(inc):
                    return None
            out_idx.append(len(spec) - 1)
            in_arg.append(len(spec) - 1)
            in_dep.append(len(spec) - 1)
    for j in range(len(kinds)):
        srcs = []
        if attach[j]:
            srcs.append((0, attach[j]))
        for i in range(j):
            e = edges.get((i, j))
            if e:
                srcs.append((out_idx[i], e))
        for p, e in srcs:
            if "a" in e:
                spec[in_arg[j]]["args"].append(p)
            if "d" in e:
                spec[in_dep[j]].setdefault("deps", []).append(p)
    # topological numbering: W/D pairs were appended in order and only reference earlier indices,
    # except D.deps may reference nodes with a smaller index only - true by construction.
    for nd in spec:
        for key in ("args", "deps"):
            if key in nd and not nd[key]:
                del nd[key]
    return spec


def family(nslots, edge_menu=(None, "a", "d", "ad"), attach_menu=(None, "a", "d"), kinds_menu=("C", "U", "P", "L")):
    pairs = [(i, j) for i in range(nslots) for j in range(i + 1, nslots)]
    for kinds in itertools.product(kinds_menu, repeat=nslots):
        for combo in itertools.product(edge_menu, repeat=len(pairs)):
            edges = dict(zip(pairs, combo))
            for attach in itertools.product(attach_menu, repeat=nslots):
                if not any(k in ("C", "P") for k in kinds):
                    continue  # nothing stored besides the source: no state
                sp = _build(kinds, edges, attach)
                if sp is not None:
                    yield sp


def S(): return {"kind": "S"}
def C(*a, deps=()): return _mk("C", a, deps)
def U(*a, deps=()): return _mk("U", a, deps)
def W(t, *a, deps=()): d = _mk("W", a, deps); d["target"] = t; return d  # t: one store index or a list
def D(*deps): return {"kind": "D", "deps": list(deps)}
def L(*deps): return {"kind": "L", "deps": list(deps)}
def A(of, *deps): return {"kind": "A", "of": of, "deps": [of] + list(deps)}
def K(*deps): return {"kind": "K", "deps": list(deps)} if deps else {"kind": "K"}


def _mk(k, a, deps):
    d = {"kind": k}
    if a:
        d["args"] = list(a)
    if deps:
        d["deps"] = list(deps)
    return d


CURATED = {
    "chain-1-unstored": [S(), U(0), C(1)],
    "chain-2-unstored": [S(), C(0), U(1), U(2), C(3)],
    "diamond": [S(), C(0), C(0), C(1, 2)],
    "diamond-unstored-mid": [S(), C(0), U(1), U(1), C(2, 3)],
    "two-sources-join": [S(), S(), C(0), C(1), C(2, 3)],
    "two-sources-shared": [S(), S(), C(0, 1), C(2, 1)],
    "fan-out": [S(), C(0), C(1), C(1), U(1)],
    "plain-dep-consumers": [S(), C(0), C(deps=[1]), U(deps=[1]), C(3)],
    "plain-dep-chain": [S(), C(0), U(deps=[1]), C(2)],
    "parallel-edges": [S(), C(0), C(1, 1, deps=[1])],
    "dependent-source": [S(), W(2, 0), D(1), C(2)],
    "dependent-source-stamped-and-reader": [S(), W(2, 0), D(1), U(deps=[2]), C(2, 3)],
    "dependent-source-pure": [W(1), D(0), C(1)],
    "two-writers-one-source": [S(), C(0), W(4, 1), U(1, deps=[2]), D(2, 3), C(4)],
    "dependent-source-chain": [S(), W(2, 0), D(1), W(4, 2), D(3), C(4)],
    "stored-then-dependent-source": [S(), C(0), W(3, 1), D(2), C(3, 1)],
    # a dependent source whose Barrier keeps its own node (m predecessors x n successors with m*n > m+n)
    "barrier-hub-3x2": [S(), W(4, 0), U(0), U(0), D(1, 2, 3), C(4), U(deps=[4])],
    "barrier-hub-2x3": [S(), W(3, 0), U(0), D(1, 2), C(3), U(deps=[3]), U(deps=[3])],
    # two dependent sources chained directly (the second depends on the first), both written by one producer
    # (the producer is a direct dependency of both: a source must depend on the call that writes it)
    "dependent-source-pair": [S(), W([2, 3], 0), D(1), D(1, 2), C(3)],
    "dependent-source-pair-both-consumed": [S(), W([2, 3], 0), D(1), D(1, 2), C(2, 3)],
    # the second source depends on the first one only (both are written in one atomic step by the producer)
    # ("keep": it is never deleted on its own - without its sibling being stale nothing would rewrite it)
    "dependent-source-chained": [S(), W([2, 3], 0), D(1), dict(D(2), keep=True), C(3)],
    "dependent-source-chained-reader": [S(), W([2, 3], 0), D(1), dict(D(2), keep=True), U(deps=[3]), C(2, 3)],
    # a predecessor without any modified time enumerated BEFORE the timed one
    "timeless-pred-first": [U(), S(), C(0, 1)],
    "timeless-pred-first-unstored-join": [U(), S(), U(0, 1), C(2)],
    "timeless-dep-first": [U(), S(), C(1, deps=[0])],
    "literal-arg-with-dependency": [S(), C(0), L(1), C(2)],
    "literal-dep-with-dependency": [S(), C(0), L(1), C(deps=[2])],
    "literal-hub": [S(), C(0), U(0), L(1, 2), C(3), U(deps=[3])],
    "literal-from-source": [S(), L(0), U(1), C(2)],
    "stored-literal": [K(), C(0)],
    "stored-literal-with-dependency": [S(), C(0), K(1), C(2), U(deps=[2])],
    "stored-literal-after-source": [S(), K(0), U(1), C(2)],
    "alias-source": [S(), C(0), A(1)],
    "alias-source-consumed": [S(), C(0), A(1), C(2)],
    "alias-source-reader-call": [S(), C(0), A(1), U(deps=[2]), C(3)],
    "alias-chain": [S(), C(0), A(1), C(2), A(3), U(4)],
}


def quick_specs():
    out = [("fam1", s) for s in family(1)]
    out += [("fam2", s) for s in family(2, attach_menu=(None, "a", "d")) if any(nd["kind"] == "L" for nd in s)]
    out += [("fam2", s) for s in family(2, attach_menu=(None, "a"), kinds_menu=("C", "U", "P"))]
    out += [("fam2q", s) for s in family(2, edge_menu=(None, "a", "d"), attach_menu=(None, "a"), kinds_menu=("C", "U", "Q")) if any(nd["kind"] == "A" for nd in s)]
    out += [(name, s) for name, s in CURATED.items() if name not in SLOW]
    return out


SLOW = ("two-writers-one-source", "dependent-source-chain", "chain-2-unstored", "fan-out", "two-sources-join", "alias-chain", "literal-hub")


def has_registered_dependency(spec):
    """Plans in which the order of registry entries can matter: a value-store node with a value-store ancestor."""
    from .e2 import TIMED, ancestors
    anc = ancestors(spec)
    return any(nd["kind"] in TIMED and any(spec[a]["kind"] in TIMED for a in anc[i]) for i, nd in enumerate(spec))


POPS_QUICK = ("dependent-source-chained", "dependent-source", "alias-source-consumed", "literal-arg-with-dependency", "plain-dep-chain", "two-sources-shared", "fam1")


def thorough_specs():
    out = quick_specs()
    out += [("fam2", s) for s in family(2) if ("fam2", s) not in out]
    out += [(name, s) for name, s in CURATED.items() if name in SLOW]
    seen = {repr(s) for _, s in out}
    for s in family(3, edge_menu=(None, "a", "d"), attach_menu=(None, "a")):
        # the pure source feeds the first slot only, or every slot
        src_succ = [j for j, nd in enumerate(s) if 0 in nd.get("args", ()) and s[0]["kind"] == "S"]
        if s[0]["kind"] == "S" and len(src_succ) == 2:
            continue
        if repr(s) not in seen:
            seen.add(repr(s))
            out.append(("fam3", s))
    # the three-slot family is covered by a fixed stride of its enumeration order (every 6th plan; the
    # enumeration varies the last slot fastest, so every kind / edge / attachment choice of the first two
    # slots still occurs): the full family costs about 40 minutes per property on 16 cores
    fam3 = [x for x in out if x[0] == "fam3"]
    keep = {id(x) for x in fam3[::FAM3_STRIDE]}
    return [x for x in out if x[0] != "fam3" or id(x) in keep]


FAM3_STRIDE = 6
