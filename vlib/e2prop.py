"""Generic runner for properties decided by E2 explorations (explicit-state BFS to fixpoint)."""
import json

from . import common, e2, e2fam

ASSUME = [
    "call functions are deterministic injective term constructors; stores return what was last written (or a normalised form, C09)",
    "modified times strictly increase with every write (logical clock)",
    "canonical form (time ranks + per-store correctness bit) is a sound quotient; cross-checked by the concrete, depth-bounded search",
    "runs inside the BFS use one worker (operation order = the engine's 1-worker order); other orders are covered by the E1 part where stated",
]


def _task(payload):
    name, spec, opts, norm, tags = payload
    opts = dict(opts)
    if isinstance(name, tuple):  # (name, {extra opts})
        name, extra = name
        opts.update(extra)
    import time
    t0 = time.time()
    r = e2.explore(spec, opts, norm=norm)
    dt_ = time.time() - t0
    viols = []
    other = {}
    seen = set()
    for t, m, h in r.violations:
        if t in tags or t == "HANG":
            k = (t, m[:50])
            if k in seen or len(viols) >= 8:
                continue
            seen.add(k)
            viols.append((t, m, h))
        else:
            other[t] = other.get(t, 0) + 1
    return {"name": name, "quotient_pairs": r.quotient_pairs, "quotient_mismatch": [repr(m)[:300] for m in r.quotient_mismatch[:2]], "opts": opts, "pop_orders": getattr(r, "pop_orders", 0), "spec": spec, "states": r.states, "transitions": r.transitions, "runs": r.runs,
            "capped": r.capped, "depth": r.max_depth, "viols": viols, "other": other, "kinds": r.kinds,
            "samples": r.samples[:1], "secs": round(dt_, 2), "nviol": sum(1 for t, _, _ in r.violations if t in tags or t == "HANG")}


def run(prop, tier, *, tags=None, norm=False, opts=None, specs=None, extra=None):
    tags = set(tags or [prop])
    opts = dict(opts or {})
    if tier == "quick":
        opts.setdefault("fail_combos", "few")
    if specs is None:
        specs = list(e2fam.quick_specs() if tier == "quick" else e2fam.thorough_specs())
        # the same plans built in other orders (sources created first / registry.add after the whole plan exists)
        var = [(n, s) for n, s in specs if e2fam.has_registered_dependency(s) and (n != "fam3") and (tier != "quick" or n != "fam2")]
        for o in ("sources-first", "adds-late"):
            specs += [((n, {"order": o}), s) for n, s in var if tier != "quick" or o == "sources-first" or not n.startswith("fam")]
        # every pop order of the 'random' scheduler, each cut at every operation (small plans only: the number of
        # pop orders grows factorially with the width of the physical plan)
        def small(sp):
            return len(sp) <= 4 and sum(1 for nd in sp if nd["kind"] in e2.TIMED) <= 3
        pops = [(n, s) for n, s in specs if isinstance(n, str) and (n in e2fam.POPS_QUICK if tier == "quick" else (n != "fam3" and small(s)))]
        if opts.get("dry"):
            pops = []  # the dry-run twin oracle is evaluated on default-order runs only
        specs += [((n, {"pops": True, "fail_combos": "few"}), s) for n, s in pops]
        if tier != "quick":
            specs += [((n, {"pops": True, "order": "sources-first", "fail_combos": "few"}), s) for n, s in pops
                      if e2fam.has_registered_dependency(s) and not n.startswith("fam")]
    if tier != "quick":
        # the three-slot family is explored with the reduced set of cut runs (as the quick tier does for every plan);
        # the one/two-slot families and the curated shapes keep every (output, fresh_time) combination cut at every operation
        specs = [(((n, {"fail_combos": "few"}) if n == "fam3" else n), s) for n, s in specs]
    # largest first (better load balance); VERIF_SEED rotates ties only - the explored set is seed independent
    def cost(item):
        n, sp = item
        extra = n[1] if isinstance(n, tuple) else {}
        timed = sum(1 for nd in sp if nd["kind"] in e2.TIMED)
        return -((4 if extra.get("pops") else 1) * (timed ** 2) * len(sp))
    import random as _random
    _random.Random(common.seed()).shuffle(specs)
    specs.sort(key=cost)
    res = common.pmap(_task, [(n, s, opts, norm, tags) for n, s in specs], chunksize=1, shuffle=False)
    viols = []
    notes = []
    tot = {"states": 0, "transitions": 0, "runs": 0, "pop_orders": 0}
    kinds = {}
    capped = False
    samples = []
    maxd = 0
    nontrivial = 0
    qp = sum(r["quotient_pairs"] for r in res)
    qm = [m for r in res for m in r["quotient_mismatch"]]
    if qm and not any(r["nviol"] or r["other"] for r in res):
        # on code that satisfies the oracles, merged states must have identical futures; a mismatch then means the
        # harness abstraction is unsound (with oracle violations present, differing futures are a symptom, not a cause)
        import sys
        print("FATAL: the canonical-state quotient merged states with different futures (harness abstraction unsound): " + qm[0], file=sys.stderr)
        sys.exit(2)
    for r in res:
        for k in tot:
            tot[k] += r[k]
        for k, v in r["kinds"].items():
            kinds[k] = kinds.get(k, 0) + v
        capped = capped or r["capped"]
        maxd = max(maxd, r["depth"])
        if r["states"] > 2:
            nontrivial += 1
        if r["samples"] and len(samples) < 3 and r["states"] > 4:
            samples.append({"plan": e2.spec_str(r["spec"]), **r["samples"][0]})
        for t, m, h in r["viols"]:
            key = f"{e2.spec_str(r['spec'])} :: {m[:80]}"
            viols.append(common.Violation(prop, key, f"[{t}] plan {e2.spec_str(r['spec'])}: {m}; history {h}",
                                          {"engine": "E2", "spec": r["spec"], "history": h, "norm": norm, "dry": bool(opts.get("dry")),
                                           "order": r["opts"].get("order", "topo")}))
        for t, n in r["other"].items():
            notes.append((t, f"{n} message(s) on plan {e2.spec_str(r['spec'])}", None))
    cov = {
        "states": tot["states"], "transitions": tot["transitions"],
        "traces_validated_against_impl": tot["runs"],
        "real_uberjob_run_calls": tot["runs"],
        "plans": len(specs), "plans_with_more_than_2_states": nontrivial,
        "pop_orders_enumerated": tot["pop_orders"],
        "merged_concrete_state_pairs_with_futures_compared": qp,
        "merged_pairs_with_different_futures": len(qm),
        "plan_build_orders": sorted({r["opts"].get("order", "topo") for r in res}),
        "events_by_kind": kinds, "max_bfs_depth": maxd,
        "fixpoint_reached_for_every_plan": not capped, "exhaustive": not capped,
        "samples": samples or [{"plan": e2.spec_str(specs[0][1])}],
        "rule": ("for every plan of the family: BFS over canonical store states (time ranks + correctness bit per store) to a fixpoint under the event "
                 "alphabet RUN(output x fresh_time gap), FAILRUN(every operation index x {exception/max_errors 0, exception/max_errors None, death}), "
                 "UPDATE(source), DELETE(stored value); plans are additionally built in other node/registry orders, and for selected plans every pop order of the 'random' scheduler "
                 "(one worker, all draws enumerated) is executed and cut at every operation; every transition executes the real uberjob.run on a freshly built plan/registry; "
                 "states = canonical states summed over plans, transitions = events applied; plan family: every 1-2 slot plan + curated shapes (quick: a subset), "
                 "thorough adds every 6th plan (fixed stride of the enumeration order) of the 3-slot family, those with the reduced set of cut runs"),
    }
    slow = sorted(res, key=lambda r: -r["secs"])[:3]
    cov["slowest_plans"] = [{"plan": e2.spec_str(r["spec"]), "secs": r["secs"], "states": r["states"]} for r in slow]
    if extra:
        cov.update(extra)
    return {"violations": viols, "notes": notes, "coverage": cov, "level": "model_checking", "assumptions": ASSUME}


def replay(prop, rep, tags=None):
    tags = set(tags or [prop])
    msgs = e2.replay_history(rep["spec"], rep["history"], norm=rep.get("norm", False), do_dry=rep.get("dry", False), verbose=True,
                             order=rep.get("order", "topo"))
    for t, m in msgs:
        print(f"ORACLE[{t}]: {m}")
    return [m for t, m in msgs if t in tags or t == "HANG"]
