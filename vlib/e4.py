"""E4 - fault- and crash-point enumeration over the file operations of a write.

While a write is in progress the process-wide entry points for creating, writing,
closing, renaming and removing files are replaced by counting proxies
(builtins.open / io.open, the returned file object's write/flush/close/__exit__,
os.replace / os.rename / os.remove / os.unlink).  A first fault-free pass records
the operation list; then the write is repeated once per (operation index k, mode):

    'before'  OSError raised instead of operation k
    'after'   OSError raised after operation k took effect
    'base'    a non-Exception BaseException raised instead of operation k
    'die-before' / 'die-after'   os._exit() in a forked child at operation k

With Recorder(raw=True) the file object is assembled from io's own C classes over a
FileIO subclass whose write() is one more operation kind ('rawwrite' = one write(2)
call), so the buffered layer's flushes are fault points too, with two extra modes:

    'short'         write(2) accepts only the first half of the buffer (returns the
                    short count), later calls succeed
    'short-enospc'  the same, and every later write(2) on that file fails with ENOSPC

The interception is global (not a module-level shadow in uberjob.stores._file_store),
so a store that bypasses staged_write is still observed.
"""
import builtins
import errno
import io
import os

_real_open = builtins.open
_real = {n: getattr(os, n) for n in ("replace", "rename", "remove", "unlink")}


class Injected(OSError):
    pass


class InjectedBase(BaseException):
    pass


class Recorder:
    def __init__(self, root, fault=None, raw=False):
        self.raw = raw
        self.root = os.path.realpath(root)
        self.ops = []  # (kind, detail)
        self.fault = fault  # (k, mode) with k 0-based index into ops
        self.fired = False
        self.cleanup = False  # inside staged_write_path's except/cleanup: removing is not faulted

    def mine(self, path):
        try:
            p = os.path.realpath(os.fspath(path))
        except TypeError:
            return False
        return p.startswith(self.root + os.sep)

    def step(self, kind, detail, do):
        k = len(self.ops)
        self.ops.append((kind, detail))
        f = self.fault
        if f is None or f[0] != k or self.fired:
            return do()
        self.fired = True
        mode = f[1]
        if mode == "before":
            raise Injected(5, f"injected before {kind} #{k}")
        if mode == "base":
            raise InjectedBase(f"injected at {kind} #{k}")
        if mode == "die-before":
            os._exit(77)
        r = do()
        if mode == "after":
            raise Injected(5, f"injected after {kind} #{k}")
        if mode == "die-after":
            os._exit(77)
        return r


class ShortRaw(io.FileIO):
    """io.FileIO whose write() - one write(2) call - is a recorded fault point."""

    def __init__(self, rec, file, mode, closefd=True, opener=None):
        super().__init__(file, mode, closefd, opener)
        self._rec = rec
        self._full = False

    def write(self, b):
        rec = self._rec
        if self._full:
            raise OSError(errno.ENOSPC, "No space left on device (injected)")
        mv = memoryview(b).cast("B")
        k = len(rec.ops)
        f = rec.fault
        if f is not None and f[0] == k and not rec.fired and f[1] in ("short", "short-enospc"):
            rec.ops.append(("rawwrite", len(mv)))
            if len(mv) < 2:
                return io.FileIO.write(self, mv)  # nothing to cut: the fault does not fire
            rec.fired = True
            self._full = f[1] == "short-enospc"
            return io.FileIO.write(self, mv[: len(mv) // 2])
        return rec.step("rawwrite", len(mv), lambda: io.FileIO.write(self, mv))


def open_stack(rec, file, mode="r", buffering=-1, encoding=None, errors=None, newline=None, closefd=True, opener=None):
    """What io.open builds, from io's own classes, over a ShortRaw."""
    binary = "b" in mode
    if binary and (encoding is not None or errors is not None or newline is not None):
        raise ValueError("binary mode doesn't take an encoding/errors/newline argument")
    raw = ShortRaw(rec, file, mode.replace("b", "").replace("t", ""), closefd, opener)
    try:
        line_buffering = False
        if buffering == 1 and not binary:
            buffering, line_buffering = -1, True
        if buffering < 0:
            buffering = io.DEFAULT_BUFFER_SIZE
        if buffering == 0:
            if not binary:
                raise ValueError("can't have unbuffered text I/O")
            return raw
        cls = io.BufferedRandom if "+" in mode else io.BufferedWriter
        buf = cls(raw, buffering)
        if binary:
            return buf
        text = io.TextIOWrapper(buf, encoding, errors, newline, line_buffering)
        text.mode = mode
        return text
    except BaseException:
        raw.close()
        raise


class FileProxy:
    def __init__(self, rec, f, name):
        self.__dict__["_rec"] = rec
        self.__dict__["_f"] = f
        self.__dict__["_name"] = name

    def write(self, data):
        return self._rec.step("write", (self._name, len(data)), lambda: self._f.write(data))

    def writelines(self, lines):
        for l in lines:
            self.write(l)

    def flush(self):
        return self._rec.step("flush", self._name, self._f.flush)

    def close(self):
        if self._f.closed:
            return None
        rec = self._rec
        k = len(rec.ops)
        f = rec.fault
        if f is not None and f[0] == k and not rec.fired and f[1] in ("before", "after", "base"):
            # a failing close still releases the descriptor; buffered data may or may not have reached the file
            rec.ops.append(("close", self._name))
            rec.fired = True
            if f[1] == "after":
                self._f.close()
            else:
                try:
                    # drop the buffered tail: detach the buffer without flushing is not portable, so
                    # truncate the file to what had reached the OS before the close
                    fd_size = os.fstat(self._f.fileno()).st_size
                    self._f.close()
                    with _real_open(self._name, "rb+") as fh:
                        fh.truncate(fd_size)
                except (OSError, ValueError):
                    pass
            if f[1] == "base":
                raise InjectedBase(f"injected at close #{k}")
            raise Injected(5, f"injected at close #{k} ({f[1]})")
        return rec.step("close", self._name, self._f.close)

    def __enter__(self):
        return self

    def __exit__(self, *a):
        self.close()
        return False

    def __getattr__(self, n):
        return getattr(self._f, n)

    def __setattr__(self, n, v):
        setattr(self._f, n, v)

    def __iter__(self):
        return iter(self._f)


class Intercept:
    """Context manager: install the proxies for the duration of one write."""

    def __init__(self, rec):
        self.rec = rec

    def __enter__(self):
        rec = self.rec

        def open_(file, mode="r", *a, **k):
            if isinstance(file, int) or not rec.mine(file) or not any(c in mode for c in "wax+"):
                return _real_open(file, mode, *a, **k)
            name = os.fspath(file)
            if rec.raw:
                f = rec.step("open", (os.path.basename(name), mode), lambda: open_stack(rec, file, mode, *a, **k))
            else:
                f = rec.step("open", (os.path.basename(name), mode), lambda: _real_open(file, mode, *a, **k))
            return FileProxy(rec, f, name)

        def wrap2(opname):
            real = _real[opname]

            def fn(src, dst, *a, **k):
                if not (rec.mine(src) or rec.mine(dst)):
                    return real(src, dst, *a, **k)
                return rec.step(opname, (os.path.basename(os.fspath(src)), os.path.basename(os.fspath(dst))),
                                lambda: real(src, dst, *a, **k))
            return fn

        def wrap1(opname):
            real = _real[opname]

            def fn(path, *a, **k):
                if not rec.mine(path):
                    return real(path, *a, **k)
                # removal is a death point only (an exception there would be a second, independent fault)
                kk = len(rec.ops)
                f = rec.fault
                rec.ops.append((opname, os.path.basename(os.fspath(path))))
                if f is not None and f[0] == kk and not rec.fired and f[1].startswith("die"):
                    rec.fired = True
                    if f[1] == "die-before":
                        os._exit(77)
                    real(path, *a, **k)
                    os._exit(77)
                return real(path, *a, **k)
            return fn

        builtins.open = open_
        io.open = open_
        os.replace = wrap2("replace")
        os.rename = wrap2("rename")
        os.remove = wrap1("remove")
        os.unlink = wrap1("unlink")
        return rec

    def __exit__(self, *a):
        builtins.open = _real_open
        io.open = _real_open
        for n, f in _real.items():
            setattr(os, n, f)
        return False


def listing(d):
    return sorted(os.listdir(d))


def read_bytes(p):
    try:
        with _real_open(p, "rb") as fh:
            return fh.read()
    except FileNotFoundError:
        return None
    except IsADirectoryError:
        return b"<dir>"
