"""Engine-level harness: the real run_function_on_graph / worker pool / queues
driven by E1 on small graphs.  Shared by C01, C04, C06, C07, C10.
"""
import itertools

from . import dethash, e1


def patch_engine():
    """Install shim threading / choice random in the engine modules (idempotent)."""
    import queue as _queue

    import uberjob._execution.run_function_on_graph as rfg
    import uberjob._execution.scheduler as sch

    rfg.threading = e1.shim_threading
    _queue.threading = e1.shim_threading
    sch.random = e1.ChoiceRandom()
    dethash.install()
    return rfg


def unpatch_engine():
    import queue as _queue
    import random as _random
    import threading as _threading

    import uberjob._execution.run_function_on_graph as rfg
    import uberjob._execution.scheduler as sch

    rfg.threading = _threading
    _queue.threading = _threading
    sch.random = _random


def install_engine_bc():
    import uberjob._execution.run_function_on_graph as rfg

    return e1.install_bc([rfg.run_function_on_graph, rfg.worker_thread], mode="shared")


def install_pool_bc_all():
    """Every instruction of the pool set-up / tear-down code (calling thread) and of the
    worker loop `process_items` becomes a scheduling point (process_node keeps 'shared')."""
    import uberjob._execution.run_function_on_graph as rfg

    install_engine_bc()
    mon = e1.sys.monitoring
    codes = [rfg.worker_pool.__wrapped__.__code__, rfg.worker_thread.__code__, rfg.run_function_on_graph.__code__]
    if hasattr(rfg, "thread"):
        codes.append(rfg.thread.__code__)
    # nested helper closures of the coordinating thread (e.g. a shutdown callback), but not process_node
    codes += [c for c in e1.nested_codes(rfg.run_function_on_graph.__code__)
              if c.co_name not in ("process_node", "run_function_on_graph")]
    codes += [c for c in e1.nested_codes(rfg.worker_thread.__code__) if c.co_name == "process_items"]
    n = 0
    for c in codes:
        offs = e1.all_offsets(c)
        e1._bc_offsets[c] = e1._bc_offsets.get(c, frozenset()) | offs
        mon.set_local_events(e1.TOOL, c, mon.events.INSTRUCTION)
        n += len(offs)
    mon.restart_events()
    return n


# --------------------------------------------------------------------------
# graph family
# --------------------------------------------------------------------------


def dags(n):
    """All DAGs on n nodes in topological numbering: every subset of pairs i<j."""
    pairs = [(i, j) for i in range(n) for j in range(i + 1, n)]
    for mask in range(1 << len(pairs)):
        yield [pairs[k] for k in range(len(pairs)) if mask >> k & 1]


def has_join(n, edges):
    indeg = [0] * n
    for _, j in edges:
        indeg[j] += 1
    return any(d >= 2 for d in indeg)


def ancestors(n, edges):
    """anc[j] = set of all i with a path i -> j."""
    anc = [set() for _ in range(n)]
    for i, j in sorted(edges, key=lambda e: e[1]):
        pass
    changed = True
    while changed:
        changed = False
        for i, j in edges:
            new = anc[i] | {i}
            if not new <= anc[j]:
                anc[j] |= new
                changed = True
    return anc


def graph_variants(n, edges):
    """The plain graph plus the variants the code distinguishes.

    Returns list of (edges_with_kinds, literal_nodes):
      edge = (i, j, kinds) with kinds a tuple from {'a','d'} - 'a' argument edge,
      'd' plain dependency; two kinds = parallel edges between the same pair."""
    out = []
    base = [(i, j, ("a",)) for i, j in edges]
    out.append((base, ()))
    if edges:
        # parallel second edge on the first edge that enters a join node, else the first edge
        indeg = {}
        for i, j in edges:
            indeg[j] = indeg.get(j, 0) + 1
        k = next((idx for idx, (i, j) in enumerate(edges) if indeg[j] >= 2), 0)
        par = list(base)
        i, j, _ = par[k]
        par[k] = (i, j, ("a", "d"))
        out.append((par, ()))
        # one inner/predecessor-having node turned into a Literal (dependencies routed through it)
        lit = next((j for j in range(n) if any(e[1] == j for e in edges) and any(e[0] == j for e in edges)), None)
        if lit is None:
            lit = next((j for j in range(n) if any(e[1] == j for e in edges)), None)
        if lit is not None:
            le = [(i, j, ("d",)) if (j == lit or i == lit) else (i, j, kk) for i, j, kk in base]
            out.append((le, (lit,)))
    return out


def build_graph(n, kedges, lits):
    from uberjob.graph import Call, Dependency, Graph, Literal, PositionalArg

    dethash.reset(0)
    nodes = []
    for i in range(n):
        if i in lits:
            nodes.append(Literal(f"L{i}"))
        else:
            def f(*a, _i=i):
                return _i
            f.__name__ = f.__qualname__ = f"f{i}"
            nodes.append(Call(f))
    g = Graph()
    for nd in nodes:
        g.add_node(nd)
    nargs = [0] * n
    for i, j, kinds in kedges:
        for k in kinds:
            if k == "a":
                g.add_edge(nodes[i], nodes[j], PositionalArg(nargs[j]))
                nargs[j] += 1
            else:
                g.add_edge(nodes[i], nodes[j], Dependency())
    return g, nodes


class Boom(Exception):
    pass


class BaseBoom(BaseException):
    pass


def make_exc(kind, label):
    if kind == "exc":
        return Boom(label)
    if kind == "base":
        return BaseBoom(label)
    if kind == "sysexit":
        return SystemExit(label)
    if kind == "kbd":
        return KeyboardInterrupt(label)
    if kind == "callerror":
        # an ordinary Exception that happens to be uberjob's own error type (e.g. raised by a nested uberjob.run)
        from uberjob import CallError
        from uberjob.graph import Call

        return CallError(Call(len))
    raise ValueError(kind)


class EngineHarness(e1.Harness):
    """cfg keys: n, kedges [(i,j,kinds)], lits, W, sched, fail {i: kind}, max_errors, bc"""

    def __init__(self, cfg):
        self.cfg = cfg
        self.rfg = patch_engine()
        self.n = cfg["n"]
        self.graph, self.nodes = build_graph(cfg["n"], cfg["kedges"], tuple(cfg.get("lits", ())))
        self.label = {nd: i for i, nd in enumerate(self.nodes)}
        self.fail = {int(k): v for k, v in (cfg.get("fail") or {}).items()}
        self.bc = bool(cfg.get("bc"))
        self.anc = ancestors(self.n, [(i, j) for i, j, _ in cfg["kedges"]])
        self.horizon = cfg.get("horizon", 6000)
        self.orig_create_queue = self.rfg.create_queue

    def setup(self, s):
        dethash.begin_execution()
        ctx = {"queue": None, "raised": {}}
        orig = self.orig_create_queue

        def create_queue(graph, initial, scheduler):
            q = orig(graph, initial, scheduler)
            ctx["queue"] = q
            return q

        self.rfg.create_queue = create_queue
        return ctx

    def body(self, ctx):
        s = e1.sched()
        label = self.label
        fail = self.fail

        def fn(node):
            i = label[node]
            s.log("start", i)
            e1.hpoint(("call", i))
            if i in fail:
                ex = make_exc(fail[i], f"n{i}")
                ctx["raised"][i] = ex
                s.log("raise", i)
                raise ex
            s.log("end", i)

        try:
            self.rfg.run_function_on_graph(
                self.graph.copy(), fn,
                worker_count=self.cfg["W"],
                max_errors=self.cfg.get("max_errors", 0),
                scheduler=self.cfg["sched"],
            )
        finally:
            self.rfg.create_queue = self.orig_create_queue
            s.log("RETURN")

    # ---- oracles ---------------------------------------------------------
    def check(self, x):
        s = x.sched
        msgs = []
        ev = s.events
        order = tuple(e[1] for e in ev if e[0] == "start")
        okey = (x.status, order, type(s.main_result[1]).__name__ if s.main_result and s.main_result[0] == "exc" else "ret")
        msgs += self.check_common(x)
        return msgs, okey

    def check_common(self, x):
        """C07-style liveness and C01/C04/C06 safety that every engine execution must satisfy."""
        s = x.sched
        ev = s.events
        msgs = []
        if x.status == "deadlock":
            msgs.append(("C07", f"deadlock: no runnable thread; blocked={s.deadlock_info}"))
        elif x.status == "horizon":
            msgs.append(("C07", f"horizon of {self.horizon} steps exceeded (livelock)"))
        if s.uncaught:
            msgs.append(("C07", f"uncaught exception in a thread: {s.uncaught}"))
        ended = set()
        raised = set()
        started = {}
        returned = False
        for e in ev:
            k = e[0]
            if k == "start":
                i = e[1]
                if returned:
                    msgs.append(("C07", f"call {i} started after run_function_on_graph returned"))
                started[i] = started.get(i, 0) + 1
                if started[i] > 1:
                    msgs.append(("C04", f"node {i} executed {started[i]} times"))
                missing = [a for a in self.anc[i] if a not in ended]
                if missing:
                    msgs.append(("C01", f"node {i} started before its ancestors {sorted(missing)} finished successfully"))
                bad = [a for a in self.anc[i] if a in raised]
                if bad:
                    msgs.append(("C06", f"node {i} started although its ancestor(s) {sorted(bad)} raised"))
            elif k == "end":
                ended.add(e[1])
                if returned:
                    msgs.append(("C07", f"call {e[1]} still running after run_function_on_graph returned"))
            elif k == "raise":
                raised.add(e[1])
            elif k == "RETURN":
                returned = True
        if x.status == "ok":
            mr = s.main_result
            if mr[0] == "ret":
                if raised:
                    msgs.append(("C06", f"calls {sorted(raised)} raised but the run returned normally"))
                missing = set(range(self.n)) - set(started)
                if missing:
                    msgs.append(("C04", f"run returned normally but nodes {sorted(missing)} never ran"))
                q = x.ctx["queue"]
                if q is not None:
                    if q.unfinished_tasks != 0:
                        msgs.append(("C04", f"queue.unfinished_tasks == {q.unfinished_tasks} at the end"))
                    if len(q.queue) != 0:
                        msgs.append(("C04", f"queue still holds {len(q.queue)} item(s) after all workers exited"))
            else:
                exc = mr[1]
                from uberjob._errors import NodeError

                if not raised:
                    msgs.append(("C06", f"run raised {exc!r} although no call raised"))
                elif not isinstance(exc, NodeError):
                    msgs.append(("C06", f"run raised {type(exc).__name__}, not NodeError"))
                else:
                    i = self.label.get(exc.node)
                    if i not in raised:
                        msgs.append(("C06", f"error names node {i} which did not raise (raised: {sorted(raised)})"))
                    elif exc.__cause__ is not x.ctx["raised"][i]:
                        msgs.append(("C06", f"__cause__ of the error is not the exception object node {i} raised"))
                    if self.cfg["W"] == 1:
                        first = next(e[1] for e in ev if e[0] == "raise")
                        if i != first:
                            msgs.append(("C06", f"single worker: error names node {i} but node {first} failed first"))
        return msgs


def engine_configs(ns, Ws, scheds, variants=True, only_join=False):
    for n in ns:
        for edges in dags(n):
            if only_join and not has_join(n, edges):
                continue
            vs = graph_variants(n, edges) if variants else [([(i, j, ("a",)) for i, j in edges], ())]
            for kedges, lits in vs:
                for W in Ws:
                    for sc in scheds:
                        yield {"n": n, "kedges": kedges, "lits": list(lits), "W": W, "sched": sc}


# curated shapes beyond G_4 (topological numbering)
CURATED5 = {
    # two parents -> join -> sink which also waits for an independent node
    "join-then-join": (5, [(0, 2), (1, 2), (2, 4), (3, 4)]),
    "join-then-join-early-y": (5, [(1, 3), (2, 3), (3, 4), (0, 4)]),
    "diamond-tail": (5, [(0, 1), (0, 2), (1, 3), (2, 3), (3, 4)]),
    "double-diamond": (5, [(0, 1), (0, 2), (1, 3), (2, 3), (1, 4), (2, 4)]),
    "wide-join": (5, [(0, 4), (1, 4), (2, 4), (3, 4)]),
}


def curated_configs(Ws, scheds, names=None):
    for name, (n, edges) in CURATED5.items():
        if names and name not in names:
            continue
        for W in Ws:
            for sc in scheds:
                yield {"n": n, "kedges": [(i, j, ("a",)) for i, j in edges], "lits": [], "W": W, "sched": sc, "shape": name}
