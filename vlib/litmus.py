"""Litmus tests binding the shim `threading` layer to the real one.

Each program is written against a `threading`-like namespace T.  Under the
explorer (shim, unbounded preemptions => complete) we enumerate the set of
outcomes; the same program then runs free on real threads many times and every
real outcome must be in the explored set; for programs with a known answer the
explored set must be exactly that answer.
"""
import queue as _queue
import threading as _rt

from . import e1


def prog_mutex(T, pt):
    x = [0]
    lock = T.Lock()

    def w():
        with lock:
            tmp = x[0]
            pt("in")
            x[0] = tmp + 1

    ts = [T.Thread(target=w) for _ in range(2)]
    for t in ts:
        t.start()
    for t in ts:
        t.join()
    return x[0]


def prog_racy(T, pt):
    x = [0]

    def w():
        tmp = x[0]
        pt("in")
        x[0] = tmp + 1

    ts = [T.Thread(target=w) for _ in range(2)]
    for t in ts:
        t.start()
    for t in ts:
        t.join()
    return x[0]


def prog_cond_handoff(T, pt):
    """Producer/consumer with the predicate-loop idiom: never loses a wake-up."""
    cond = T.Condition(T.Lock())
    box = []
    got = []

    def consumer():
        with cond:
            while not box:
                cond.wait()
            got.append(box.pop())

    def producer():
        pt("p")
        with cond:
            box.append(7)
            cond.notify()

    c = T.Thread(target=consumer)
    p = T.Thread(target=producer)
    c.start()
    p.start()
    c.join()
    p.join()
    return tuple(got)


def prog_notify_one(T, pt):
    """Two waiters, notify(1) twice: both eventually run, in either order."""
    cond = T.Condition(T.Lock())
    tokens = [0]
    order = []

    def waiter(i):
        with cond:
            while tokens[0] == 0:
                cond.wait()
            tokens[0] -= 1
            order.append(i)

    ws = [T.Thread(target=waiter, args=(i,)) for i in range(2)]
    for w in ws:
        w.start()
    for _ in range(2):
        pt("n")
        with cond:
            tokens[0] += 1
            cond.notify()
    for w in ws:
        w.join()
    return tuple(sorted(order))


def prog_event(T, pt):
    e = T.Event()
    seen = []

    def w():
        seen.append(e.wait())

    t = T.Thread(target=w)
    t.start()
    pt("m")
    e.set()
    t.join()
    r2 = e.wait()
    return (tuple(seen), r2, e.is_set())


def prog_join_finished(T, pt):
    out = []
    t = T.Thread(target=lambda: out.append(1))
    t.start()
    t.join()
    t.join()
    return (tuple(out), t.is_alive())


def prog_queue(T, pt):
    """stdlib queue.Queue on the given threading layer: 2 items, 2 consumers + join."""
    saved = _queue.threading
    _queue.threading = T
    try:
        q = _queue.Queue()
        got = []

        def consumer():
            item = q.get()
            pt("c")
            got.append(item)
            q.task_done()

        cs = [T.Thread(target=consumer) for _ in range(2)]
        for c in cs:
            c.start()
        q.put(0)
        q.put(1)
        q.join()
        r = (tuple(sorted(got)), q.unfinished_tasks, q.qsize())
        for c in cs:
            c.join()
        return r
    finally:
        _queue.threading = saved


PROGRAMS = {
    "mutex": (prog_mutex, {2}),
    "racy": (prog_racy, {1, 2}),
    "cond_handoff": (prog_cond_handoff, {(7,)}),
    "notify_one": (prog_notify_one, {(0, 1)}),
    "event": (prog_event, {((True,), True, True)}),
    "join_finished": (prog_join_finished, {((1,), False)}),
    "queue": (prog_queue, {((0, 1), 0, 0)}),
}


class LitmusHarness(e1.Harness):
    horizon = 2000

    def __init__(self, cfg):
        self.name = cfg["prog"]
        self.prog = PROGRAMS[self.name][0]

    def body(self, ctx):
        return self.prog(e1.shim_threading, e1.hpoint)

    def check(self, x):
        s = x.sched
        msgs = []
        if x.status != "ok":
            msgs.append(("LITMUS", f"{self.name}: {x.status} {s.deadlock_info}"))
            return msgs, ("status", x.status)
        if s.uncaught:
            msgs.append(("LITMUS", f"{self.name}: uncaught {s.uncaught}"))
        mr = s.main_result
        return msgs, (mr[0], repr(mr[1]))


def run_litmus(real_runs=200, quick=False):
    """Returns (problems, stats, executions).  quick: preemption bound 2 on the two large programs."""
    problems = []
    stats = {}
    total_exec = 0
    for name, (prog, expected) in PROGRAMS.items():
        h = LitmusHarness({"prog": name})
        big = name in ("queue", "notify_one")
        st, _ = e1.dfs(h, [], e1.Budget(preempt=2) if (quick and big) else e1.Budget(), max_exec=200000)
        total_exec += st.executions
        for msgs, ch in st.violations:
            problems.append(f"litmus {name}: {msgs}")
        explored = {k[1] for k in st.outcomes if k[0] == "ret"}
        bad = [k for k in st.outcomes if k[0] != "ret"]
        if bad:
            problems.append(f"litmus {name}: non-return outcomes under the shim: {bad}")
        if explored != {repr(v) for v in expected}:
            problems.append(f"litmus {name}: explored outcome set {sorted(explored)} != expected {sorted(map(repr, expected))}")
        real = set()
        for _ in range(real_runs):
            real.add(repr(prog(_rt, lambda *_: None)))
        if not real <= explored:
            problems.append(f"litmus {name}: real threading produced {sorted(real - explored)} not in explored set")
        stats[name] = {"explored_executions": st.executions, "explored_outcomes": sorted(explored),
                       "real_outcomes": sorted(real), "capped": st.capped}
    return problems, stats, total_exec
