"""Entry point: ./check <ID> [--tier quick|thorough] [--replay file]"""
import argparse
import importlib
import json
import os
import sys

sys.path.insert(0, os.path.dirname(os.path.dirname(os.path.abspath(__file__))))
sys.dont_write_bytecode = True

from vlib import common  # noqa: E402


def main():
    ap = argparse.ArgumentParser()
    ap.add_argument("prop")
    ap.add_argument("--tier", default=os.environ.get("VERIF_TIER") or "quick", choices=["quick", "thorough"])
    ap.add_argument("--replay")
    args = ap.parse_args()
    prop = args.prop.upper()
    common.bootstrap()
    mod = importlib.import_module(f"vlib.props.{prop.lower()}")
    if args.replay:
        with open(args.replay) as fh:
            rep = json.load(fh)
        msgs = mod.replay(rep["replay"])
        if msgs:
            print(f"VIOLATION property={prop} replay={args.replay}")
            sys.exit(1)
        print("replay: property held on this case")
        sys.exit(0)
    t = common.Timer()
    res = mod.run(args.tier)
    for t_, m, cfg in res.get("notes", [])[:5]:
        print(f"OBSERVED (other property {t_}, not decided by this check): {m}")
    nnew = common.report(prop, res["violations"])
    common.write_evidence(
        prop, args.tier, res["level"], res["coverage"], t.s(), nnew, res.get("assumptions", ())
    )
    cov = res["coverage"]
    brief = {k: cov[k] for k in cov if isinstance(cov[k], (int, float, bool, str)) and k not in ("rule", "explanation")}
    print(f"{prop} [{args.tier}] {'FAIL' if nnew else 'ok'} in {t.s():.1f}s  {json.dumps(brief)}")
    sys.exit(1 if nnew else 0)


if __name__ == "__main__":
    main()
