"""API-level harness: uberjob.run on small enumerated plans under E1.

cfg keys
  n          number of calls c0..c{n-1} (topological numbering)
  edges      [(i, j, kind)], i<j, kind in
               'p'  positional argument      'k'  keyword argument
               'd'  add_dependency           'pd' positional + add_dependency (parallel edges)
               'l'  add_dependency(i, lit); add_dependency(lit, j)
               'la' add_dependency(i, lit); lit is a positional argument of j
               'll' dependency routed through a chain of two adjacent literals
               'lr' as 'l', but declared downstream-first: add_dependency(lit, j) BEFORE add_dependency(i, lit)
               'lla' chain of two literals that both survive pruning: the second is a positional argument of j,
                    the first is an argument of an auxiliary call that is part of the (list) output
  hub        optional (preds, succs, as_arg): ONE literal shared by several
             predecessors and successors (exercises _prune_literal_if_trivial on
             both sides of m*n <= m+n)
  output     None | 'lit' | [i, ...] (list of nodes) | 'nested' | int (single node)
  W, sched ('default'|'random'), fail {i: kind}, max_errors
  observer   None | 'rec'  (recording ProgressObserver)
"""
from . import dethash, e1
from .engine import ancestors, make_exc, patch_engine


class Val:
    """Result of call i: remembers what it was called with."""

    __slots__ = ("i", "args", "kwargs", "__weakref__")

    def __init__(self, i, args, kwargs):
        self.i = i
        self.args = args
        self.kwargs = kwargs

    def key(self):
        return ("V", self.i, tuple(_key(a) for a in self.args), tuple((k, _key(v)) for k, v in self.kwargs))

    def __repr__(self):
        return f"V{self.i}"


def _key(v):
    if isinstance(v, Val):
        return v.key()
    if isinstance(v, (list, tuple)):
        return (type(v).__name__, tuple(_key(a) for a in v))
    if isinstance(v, dict):
        return ("dict", tuple((_key(k), _key(x)) for k, x in v.items()))
    return v


class PlanHarness(e1.Harness):
    def __init__(self, cfg):
        import uberjob

        self.uberjob = uberjob
        self.cfg = cfg
        self.rfg = patch_engine()
        self.n = n = cfg["n"]
        self.fail = {int(k): v for k, v in (cfg.get("fail") or {}).items()}
        self.bc = bool(cfg.get("bc"))
        self.horizon = cfg.get("horizon", 8000)
        dethash.reset(0)
        plan = uberjob.Plan()
        self.plan = plan
        edges = [tuple(e) for e in cfg["edges"]]
        hub = cfg.get("hub")
        self.fns = []
        self.calls = []
        self.aux = []
        hub_lit = None
        if hub:
            hub_lit = plan.lit("HUB")
        logical = []  # (i, j) logical dependency pairs
        for j in range(n):
            f = self._make_fn(j)
            self.fns.append(f)
            args, kwargs, deps, late = [], {}, [], []
            for (i, jj, kind) in edges:
                if jj != j:
                    continue
                logical.append((i, j))
                if kind in ("p", "pd"):
                    args.append(self.calls[i])
                if kind == "k":
                    kwargs[f"k{i}"] = self.calls[i]
                if kind in ("d", "pd"):
                    deps.append(self.calls[i])
                if kind == "l":
                    lit = plan.lit(f"L{i}{j}")
                    plan.add_dependency(self.calls[i], lit)
                    deps.append(lit)
                if kind == "la":
                    lit = plan.lit(f"L{i}{j}")
                    plan.add_dependency(self.calls[i], lit)
                    args.append(lit)
                if kind == "lr":
                    lit = plan.lit(f"L{i}{j}")
                    deps.append(lit)
                    late.append((self.calls[i], lit))
                if kind == "lla":
                    l1, l2 = plan.lit(f"La{i}{j}"), plan.lit(f"Lb{i}{j}")
                    plan.add_dependency(self.calls[i], l1)
                    plan.add_dependency(l1, l2)
                    args.append(l2)
                    self.aux.append(plan.call(_aux, l1))
                if kind == "ll":
                    # literal creation order alternates so both removal orders occur
                    if (i + j) % 2:
                        l1, l2 = plan.lit(f"La{i}{j}"), plan.lit(f"Lb{i}{j}")
                    else:
                        l2, l1 = plan.lit(f"Lb{i}{j}"), plan.lit(f"La{i}{j}")
                    plan.add_dependency(self.calls[i], l1)
                    plan.add_dependency(l1, l2)
                    deps.append(l2)
            if hub and j in hub[1]:
                if hub[2]:
                    args.append(hub_lit)
                else:
                    deps.append(hub_lit)
                for i in hub[0]:
                    logical.append((i, j))
            scope = (cfg.get("scopes") or {}).get(str(j))
            if scope:
                with plan.scope(*scope):
                    c = plan.call(f, *args, **kwargs)
            else:
                c = plan.call(f, *args, **kwargs)
            for d in deps:
                plan.add_dependency(d, c)
            for src, lit in late:
                plan.add_dependency(src, lit)
            self.calls.append(c)
            if hub and j in hub[0]:
                plan.add_dependency(c, hub_lit)
        self.index = {c: i for i, c in enumerate(self.calls)}
        self.anc = ancestors(n, logical)
        out = cfg.get("output")
        if out is None:
            self.output, self.needed = None, set()
        elif out == "lit":
            self.output, self.needed = [1, "x", (2,)], set()
        elif out == "nested":
            self.output = {"a": [self.calls[-1]], "b": (self.calls[0], 7)}
            self.needed = {n - 1, 0}
        elif isinstance(out, dict) and "litdep" in out:
            # the requested output is a bare plan Literal that depends on call k
            lit = plan.lit("OUT")
            plan.add_dependency(self.calls[out["litdep"]], lit)
            self.output, self.needed = lit, {out["litdep"]}
        elif isinstance(out, int):
            self.output, self.needed = self.calls[out], {out}
        else:
            self.output, self.needed = [self.calls[i] for i in out] + list(self.aux), set(out)
        need = set(self.needed)
        for i in list(need):
            need |= self.anc[i]
        self.needed_closure = need

    def _make_fn(self, i):
        fail = self.fail

        def f(*args, **kwargs):
            s = e1.sched()
            s.log("start", i)
            e1.hpoint(("call", i))
            if i in fail:
                ex = make_exc(fail[i], f"c{i}")
                s.ctx["raised"][i] = ex
                s.log("raise", i)
                raise ex
            v = Val(i, args, tuple(kwargs.items()))
            s.ctx["vals"][i] = v
            s.log("end", i)
            return v

        f.__name__ = f.__qualname__ = f"f{i}"
        return f

    def setup(self, s):
        dethash.begin_execution()
        s.ctx = {"raised": {}, "vals": {}}
        return s.ctx

    def make_recorder(self, s):
        from uberjob.progress import Progress, ProgressObserver

        hp = e1.hpoint if self.cfg.get("obs_points") else (lambda at: None)

        class Recorder(ProgressObserver):
            def __enter__(self_):
                s.log("obs", "enter")
                e1.hpoint("obs.enter")

            def __exit__(self_, et, ev, tb):
                s.log("obs", "exit", getattr(et, "__name__", None))
                e1.hpoint("obs.exit")

            def increment_total(self_, *, section, scope, amount):
                s.log("obs", "total", section, scope, amount)

            def increment_running(self_, *, section, scope):
                s.log("obs", "running", section, scope)
                hp("obs.running")

            def increment_completed(self_, *, section, scope):
                s.log("obs", "completed", section, scope)
                hp("obs.completed")

            def increment_failed(self_, *, section, scope, exception):
                s.log("obs", "failed", section, scope, type(exception).__name__)
                hp("obs.failed")

        return Progress(Recorder)

    def run_kwargs(self):
        cfg = self.cfg
        kw = dict(max_workers=cfg["W"], scheduler=cfg.get("sched"), progress=None)
        if cfg.get("observer") == "rec":
            kw["progress"] = self.make_recorder(e1.sched())
        elif cfg.get("observer") == "rec2":
            from uberjob.progress import composite_progress

            kw["progress"] = composite_progress(self.make_recorder(e1.sched()), self.make_recorder(e1.sched()))
        if "max_errors" in cfg:
            kw["max_errors"] = cfg["max_errors"]
        return kw

    def body(self, ctx):
        s = e1.sched()
        try:
            return self.uberjob.run(self.plan, output=self.output, **self.run_kwargs())
        finally:
            s.log("RETURN")

    def check(self, x):
        s = x.sched
        ev = s.events
        order = tuple(e[1] for e in ev if e[0] == "start")
        mr = s.main_result
        okey = (x.status, order, type(mr[1]).__name__ if mr and mr[0] == "exc" else "ret")
        return self.check_common(x), okey

    def check_common(self, x):
        s = x.sched
        ev = s.events
        msgs = []
        if x.status == "deadlock":
            msgs.append(("C07", f"deadlock: no runnable thread; blocked={s.deadlock_info}"))
        elif x.status == "horizon":
            msgs.append(("C07", f"horizon of {self.horizon} steps exceeded (livelock)"))
        if s.uncaught:
            msgs.append(("C07", f"uncaught exception in a thread: {s.uncaught}"))
        ended, raised, started = set(), set(), {}
        returned = False
        for e in ev:
            k = e[0]
            if k == "start":
                i = e[1]
                if returned:
                    msgs.append(("C07", f"call {i} started after run returned"))
                started[i] = started.get(i, 0) + 1
                if started[i] > 1:
                    msgs.append(("C04", f"call {i} executed {started[i]} times"))
                missing = [a for a in self.anc[i] if a not in ended]
                if missing:
                    msgs.append(("C01", f"call {i} started before its dependencies {sorted(missing)} finished successfully"))
                bad = [a for a in self.anc[i] if a in raised]
                if bad:
                    msgs.append(("C06", f"call {i} started although its dependency {sorted(bad)} raised"))
            elif k == "end":
                ended.add(e[1])
                if returned:
                    msgs.append(("C07", f"call {e[1]} still running after run returned"))
            elif k == "raise":
                raised.add(e[1])
            elif k == "RETURN":
                returned = True
        if x.status != "ok":
            return msgs
        mr = s.main_result
        from uberjob import CallError

        if mr[0] == "ret":
            if raised:
                msgs.append(("C06", f"calls {sorted(raised)} raised but run returned normally"))
                miss = sorted(self.needed_closure - set(started))
                if miss:
                    msgs.append(("C04", f"run returned normally although needed calls {miss} were never executed"))
            else:
                if set(started) != self.needed_closure:
                    extra = sorted(set(started) - self.needed_closure)
                    miss = sorted(self.needed_closure - set(started))
                    msgs.append(("C04", f"executed set differs from what the output needs: unneeded {extra}, missing {miss}"))
                exp = self.expected_output(x.ctx["vals"])
                if _key(mr[1]) != _key(exp) or type(mr[1]) is not type(exp):
                    msgs.append(("C02", f"run returned {mr[1]!r}, direct evaluation gives {exp!r}"))
        else:
            exc = mr[1]
            if not raised:
                msgs.append(("C06", f"run raised {exc!r} although no call raised"))
            elif not isinstance(exc, CallError):
                msgs.append(("C06", f"run raised {type(exc).__name__}: {exc}, not CallError"))
            else:
                i = self.index.get(exc.call)
                if i not in raised:
                    msgs.append(("C06", f"CallError.call is call {i}, which did not raise (raised: {sorted(raised)})"))
                elif exc.__cause__ is not x.ctx["raised"][i]:
                    msgs.append(("C06", f"CallError.__cause__ is not the exception object call {i} raised"))
                if self.cfg["W"] == 1 and i in raised:
                    first = next(e[1] for e in ev if e[0] == "raise")
                    if i != first:
                        msgs.append(("C06", f"single worker: CallError names call {i} but call {first} failed first"))
        return msgs

    def expected_output(self, vals):
        out = self.cfg.get("output")
        if out is None:
            return None
        if out == "lit":
            return self.output
        if out == "nested":
            return {"a": [vals.get(self.n - 1)], "b": (vals.get(0), 7)}
        if isinstance(out, dict):
            return "OUT"
        if isinstance(out, int):
            return vals.get(out)
        return [vals.get(i) for i in out] + ["aux"] * len(self.aux)


def _aux(*a):
    return "aux"


EDGE_KINDS = ("p", "k", "d", "pd", "l", "la", "ll")


def plan_configs(n, kinds=EDGE_KINDS):
    """Every plan on n calls where each pair i<j is unconnected or connected by one of `kinds`."""
    import itertools

    pairs = [(i, j) for i in range(n) for j in range(i + 1, n)]
    for combo in itertools.product((None,) + tuple(kinds), repeat=len(pairs)):
        yield [(i, j, k) for (i, j), k in zip(pairs, combo) if k is not None]
