"""C01 - a call never starts before everything it depends on has finished successfully.

E1 on the real engine: (1) run_function_on_graph on the DAG family G_n with
bytecode-level preemption in the node-processing code; (2) uberjob.run on every
small plan over all edge kinds with every pop order the queue permits.
"""
from .. import e1prop, engine, planh

PROP = "C01"
ENGINE = "vlib.engine:EngineHarness"
PLAN = "vlib.planh:PlanHarness"


def _with(cfgs, **kw):
    for c in cfgs:
        d = dict(c)
        d.update(kw)
        yield d


def explorations(tier):
    """list of (name, factory, cfgs, budget)"""
    ex = []
    scheds = ["cheap", "default", "random"]
    det = ["cheap", "default"]
    EC = engine.engine_configs
    if tier == "quick":
        ex.append(("engine G3 W=1 sync b<=2, all random draws", ENGINE, list(EC([3], [1], scheds)), {"preempt": 2}))
        ex.append(("engine G3 W=2 sync b<=2", ENGINE, list(EC([3], [2], det)), {"preempt": 2}))
        ex.append(("engine G3 W=2 random sync b<=1, all draws", ENGINE, list(EC([3], [2], ["random"])), {"preempt": 1}))
        ex.append(("engine G3 W=3 sync b<=1", ENGINE, list(EC([3], [3], det)), {"preempt": 1}))
        ex.append(("engine G3 W=2 bytecode b<=1", ENGINE, list(_with(EC([3], [2], scheds), bc=True)), {"preempt": 1, "random": 1}))
        ex.append(("engine G4-join W=2 bytecode b<=1", ENGINE,
                   list(_with(EC([4], [2], ["default"], only_join=True, variants=False), bc=True)), {"preempt": 1}))
        ex.append(("engine curated 5-node join shapes W=2 bytecode b<=1", ENGINE,
                   list(_with(engine.curated_configs([2], ["cheap", "default", "random"]), bc=True)), {"preempt": 1, "random": 1}))
        ex.append(("engine join-then-join (5 nodes) W=2 bytecode b<=2", ENGINE,
                   list(_with(engine.curated_configs([2], ["cheap", "default", "random"], names=["join-then-join"]), bc=True)),
                   {"preempt": 2, "random": 1}))
        ex.append(("api plans n=3, W=1, every pop order", PLAN,
                   [{"n": 3, "edges": e, "output": [0, 1, 2], "W": 1, "sched": "random"} for e in planh.plan_configs(3)],
                   {"preempt": 0}))
        ex.append(("api plans n=3, only the last call requested (no output gather fanning out of every call), W=1 every pop order / W=2 b<=1", PLAN,
                   [{"n": 3, "edges": e, "output": 2, "W": w, "sched": sc} for e in planh.plan_configs(3, kinds=("p", "k", "d", "l"))
                    for w, sc in ((1, "random"), (2, "default"))], {"preempt": 1}))
        ex.append(("api hubs", PLAN, hub_cfgs([1, 2]), {"preempt": 1, "random": 2}))
        ex.append(("api plans n=3 with chains of two surviving literals / literals wired downstream-first, W=1 every pop order / W=2 b<=1", PLAN,
                   [{"n": 3, "edges": e, "output": [0, 1, 2], "W": w, "sched": sc}
                    for e in planh.plan_configs(3, kinds=("p", "lla", "lr")) if any(k[2] in ("lla", "lr") for k in e) for w, sc in ((1, "random"), (2, "default"))],
                   {"preempt": 1}))
        # "finished executing SUCCESSFULLY": failing calls with an error budget that is not exhausted
        from .c06 import api_fail_cfgs, engine_fail_cfgs
        ex.append(("engine G3 x fault patterns x max_errors {1,None}, W=1..2, sync b<=1", ENGINE,
                   list(engine_fail_cfgs([3], [1, 2], ["default", "random"], max_errors=(1, None))), {"preempt": 1, "random": 1}))
        ex.append(("api plans n=3 x fault patterns x max_errors {1,None}, W=1", PLAN,
                   list(api_fail_cfgs(3, [(1, "default")], kinds=("p", "k", "d", "l", "la"), max_errors=(1, None))), {"preempt": 0}))
    else:
        ex.append(("engine G3/G4 W=1 sync b<=2, all random draws", ENGINE, list(EC([3, 4], [1], scheds)), {"preempt": 2}))
        ex.append(("engine G3 W=2 sync b<=3", ENGINE, list(EC([3], [2], det)), {"preempt": 3}))
        ex.append(("engine G3 W=2 random sync b<=2, all draws", ENGINE, list(EC([3], [2], ["random"])), {"preempt": 2}))
        ex.append(("engine G3 W=3 sync b<=1", ENGINE, list(EC([3], [3], scheds)), {"preempt": 1, "random": 1}))
        ex.append(("engine G4 W=2 sync b<=2", ENGINE, list(EC([4], [2], scheds)), {"preempt": 2, "random": 1, "yield": 1}))
        ex.append(("engine G3 W=2 bytecode b<=2", ENGINE, list(_with(EC([3], [2], scheds), bc=True)), {"preempt": 2, "random": 1, "yield": 1}))
        ex.append(("engine G3 W=3 bytecode b<=1", ENGINE, list(_with(EC([3], [3], det), bc=True)), {"preempt": 1}))
        ex.append(("engine G4-join W=2 bytecode b<=1, default and random queue", ENGINE,
                   list(_with(EC([4], [2], ["default", "random"], only_join=True), bc=True)), {"preempt": 1, "random": 1}))
        ex.append(("engine curated 5-node join shapes W=2 bytecode b<=1", ENGINE,
                   list(_with(engine.curated_configs([2], ["cheap", "default", "random"]), bc=True)), {"preempt": 1, "random": 1, "yield": 1}))
        ex.append(("api plans n=3: W=1 every pop order; W=2 b<=1", PLAN,
                   [{"n": 3, "edges": e, "output": [0, 1, 2], "W": w, "sched": sc}
                    for e in planh.plan_configs(3) for w, sc in ((1, "random"), (2, "default"))],
                   {"preempt": 1}))
        ex.append(("api plans n=4, W=1, every pop order", PLAN,
                   [{"n": 4, "edges": e, "output": [0, 1, 2, 3], "W": 1, "sched": "random"}
                    for e in planh.plan_configs(4, kinds=("p", "d", "pd", "l"))],
                   {"preempt": 0}))
        ex.append(("api hubs W=1..3, b<=1", PLAN, hub_cfgs([1, 2, 3]), {"preempt": 1, "random": 2, "yield": 1}))
        ex.append(("api hubs W=2, b<=2", PLAN, hub_cfgs([2]), {"preempt": 2, "random": 1, "yield": 0}))
        ex.append(("api plans n=3 with chains of two surviving literals / literals wired downstream-first, W=1 every pop order / W=2 b<=2", PLAN,
                   [{"n": 3, "edges": e, "output": [0, 1, 2], "W": w, "sched": sc}
                    for e in planh.plan_configs(3, kinds=("p", "d", "lla", "lr")) if any(k[2] in ("lla", "lr") for k in e) for w, sc in ((1, "random"), (2, "default"), (2, "random"))],
                   {"preempt": 1, "random": 2, "yield": 1}))
        from .c06 import api_fail_cfgs, engine_fail_cfgs
        ex.append(("engine G3 x fault patterns x max_errors {1,2,None}, W=1..2, sync b<=2", ENGINE,
                   list(engine_fail_cfgs([3], [1, 2], ["default", "random"], max_errors=(1, 2, None))), {"preempt": 2, "random": 1, "yield": 1}))
        ex.append(("engine G3 x fault patterns x max_errors {1,None}, W=3, sync b<=1", ENGINE,
                   list(engine_fail_cfgs([3], [3], ["default"], max_errors=(1, None))), {"preempt": 1, "random": 1}))
        ex.append(("api plans n=3 x fault patterns x max_errors {1,None}, W=1..2", PLAN,
                   list(api_fail_cfgs(3, [(1, "random"), (2, "default")], kinds=("p", "k", "d", "pd", "l", "la"), max_errors=(1, None))), {"preempt": 1}))
    return ex


def hub_cfgs(Ws):
    """One literal shared by m predecessors and k successors, as dependency or argument."""
    out = []
    for m, k in ((1, 1), (1, 2), (2, 1), (2, 2), (2, 3), (3, 2)):
        n = m + k
        for as_arg in (False, True):
            for W in Ws:
                for sc in ("default", "random"):
                    out.append({"n": n, "edges": [], "hub": [list(range(m)), list(range(m, n)), as_arg],
                                "output": list(range(n)), "W": W, "sched": sc})
    return out


def run(tier):
    return e1prop.run(PROP, explorations(tier))


def replay(rep):
    return e1prop.replay(PROP, rep)
