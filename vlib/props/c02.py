"""C02 - run returns exactly what direct evaluation of the call graph would return.

E3: bounded-exhaustive enumeration of programs (expression shapes, argument plumbing, call chains,
unpack) against a reference interpreter that is independent of Plan._gather / get_argument_nodes,
each program under 1 worker x both schedulers and 2 workers; plus E1 (all schedules with <= 1
preemption, 2 workers) on the programs with the most nodes.
"""
import itertools

from .. import common, e1, e1run

PROP = "C02"
FACTORY = "vlib.props.c02:ProgHarness"


class Rec:
    """Frozen record returned by every call function: order, naming and identity of what it received are observable."""

    __slots__ = ("name", "args", "kwargs")

    def __init__(self, name, args, kwargs):
        self.name, self.args, self.kwargs = name, args, kwargs

    def __eq__(self, o):
        return type(o) is Rec and o.name == self.name and _eq(o.args, self.args) and _eq(o.kwargs, self.kwargs)

    def __hash__(self):
        return hash(self.name)

    def __repr__(self):
        a = ", ".join([repr(x) for x in self.args] + [f"{k}={v!r}" for k, v in self.kwargs])
        return f"{self.name}({a})"


def _eq(a, b):
    try:
        return a == b
    except Exception:  # noqa
        return False


class Record:
    """has __len__ and __getitem__(int), but indexing runs backwards relative to iteration"""

    def __init__(self, items):
        self.items = items

    def __len__(self):
        return len(self.items)

    def __iter__(self):
        return iter(self.items)

    def __getitem__(self, i):
        return self.items[len(self.items) - 1 - i]


class MyList(list):
    """a list *subclass*: opaque to gather"""


FLAKY = {"k": 0, "seen": {}}  # transient failures: the first k invocations of every function raise


class Transient(Exception):
    pass


def make_fn(name):
    def f(*args, **kwargs):
        if FLAKY["k"]:
            a = FLAKY["seen"].get(name, 0)
            FLAKY["seen"][name] = a + 1
            if a < FLAKY["k"]:
                raise Transient(f"attempt {a} of {name}")
        return Rec(name, args, tuple(kwargs.items()))
    f.__name__ = f.__qualname__ = name
    return f


# ---------------------------------------------------------------------------------------------
# expressions:  ("int", v) ("str", s) ("op",) ("opn", i) ("n", i) ("list"|"tuple"|"set", [e...]) ("dict", [(k, v)...])
# ---------------------------------------------------------------------------------------------


class Built:
    __slots__ = ("obj", "ref", "has_node")

    def __init__(self, obj, ref, has_node):
        self.obj, self.ref, self.has_node = obj, ref, has_node


def mk(expr, nodes, ident):
    """Returns Built: the user-level object (holding Node objects), a function vals -> expected value, has_node."""
    t = expr[0]
    if t in ("int", "str", "lit"):
        v = expr[1]
        return Built(v, lambda vals: v, False)
    if t == "op":
        o = MyList([1, 2])
        ident.add(id(o))
        return Built(o, lambda vals: o, False)
    if t == "opn":
        o = MyList([nodes[expr[1]]])  # a Node inside a subclass container: must reach the call untouched
        ident.add(id(o))
        return Built(o, lambda vals: o, False)
    if t == "n":
        i = expr[1]
        return Built(nodes[i], lambda vals: vals[i], True)
    if t in ("list", "tuple", "set"):
        T = {"list": list, "tuple": tuple, "set": set}[t]
        ch = [mk(c, nodes, ident) for c in expr[1]]
        obj = T(c.obj for c in ch)  # may raise TypeError for unhashable set members: caller skips
        if any(c.has_node for c in ch):
            if t == "set":
                return Built(obj, lambda vals: set(c.ref(vals) for c in ch), True)
            return Built(obj, lambda vals: T(c.ref(vals) for c in ch), True)
        ident.add(id(obj))
        return Built(obj, lambda vals: obj, False)
    if t == "dict":
        items = [(mk(k, nodes, ident), mk(v, nodes, ident)) for k, v in expr[1]]
        obj = {}
        surv = {}
        for k, v in items:
            if k.obj in obj:
                surv[k.obj] = (surv[k.obj][0], v)  # python keeps the first key object and the last value
            else:
                surv[k.obj] = (k, v)
            obj[k.obj] = v.obj
        if any(k.has_node or v.has_node for k, v in items):
            order = [surv[ko] for ko in obj]

            def ref(vals):
                d = {}
                for k, v in order:
                    d[k.ref(vals)] = v.ref(vals)  # latest key wins, first position kept
                return d
            return Built(obj, ref, True)
        ident.add(id(obj))
        return Built(obj, lambda vals: obj, False)
    raise ValueError(t)


def deep_same(got, exp, ident, path="value"):
    """None if `got` is what direct evaluation gives, else a description of the first difference."""
    if id(exp) in ident:
        return None if got is exp else f"{path}: a value without symbolic nodes was not passed as the very object supplied (got {got!r})"
    if type(got) is not type(exp):
        return f"{path}: type {type(got).__name__}, expected {type(exp).__name__} ({got!r} vs {exp!r})"
    if isinstance(exp, (list, tuple)):
        if len(got) != len(exp):
            return f"{path}: length {len(got)}, expected {len(exp)}"
        for i, (g, e) in enumerate(zip(got, exp)):
            r = deep_same(g, e, ident, f"{path}[{i}]")
            if r:
                return r
        return None
    if isinstance(exp, set):
        return None if got == exp else f"{path}: set {got!r}, expected {exp!r}"
    if isinstance(exp, dict):
        if len(got) != len(exp):
            return f"{path}: dict with {len(got)} items, expected {len(exp)} ({got!r} vs {exp!r})"
        for (gk, gv), (ek, ev) in zip(got.items(), exp.items()):
            r = deep_same(gk, ek, ident, f"{path}.key") or deep_same(gv, ev, ident, f"{path}[{ek!r}]")
            if r:
                return r
        return None
    if isinstance(exp, Rec):
        if got.name != exp.name:
            return f"{path}: result of {got.name}, expected {exp.name}"
        if len(got.args) != len(exp.args):
            return f"{path}: {len(got.args)} positional arguments, expected {len(exp.args)}"
        for i, (g, e) in enumerate(zip(got.args, exp.args)):
            r = deep_same(g, e, ident, f"{path}.arg{i}")
            if r:
                return r
        if [k for k, _ in got.kwargs] != [k for k, _ in exp.kwargs]:
            return f"{path}: keyword arguments {[k for k, _ in got.kwargs]}, expected {[k for k, _ in exp.kwargs]} (names/order)"
        for (k, g), (_, e) in zip(got.kwargs, exp.kwargs):
            r = deep_same(g, e, ident, f"{path}.{k}")
            if r:
                return r
        return None
    # leaves: equal, same type (checked above) and same representation (1 / True / 1.0 and 0.0 / -0.0 are distinguishable)
    return None if _eq(got, exp) and repr(got) == repr(exp) else f"{path}: {got!r}, expected {exp!r}"


# ---------------------------------------------------------------------------------------------
# programs
# ---------------------------------------------------------------------------------------------
# program = {"calls": [(name, [pos exprs], [(kw, expr)...])...], "unpack": (src_kind, src_len, n) | None, "output": expr}
# node numbering: calls in order; then unpack items (if any) appended after the call that precedes them.

BASE_CALLS = [("c0", [], []), ("c1", [], []), ("c0", [], [])]  # n0, n1 distinct values; n2 equals n0 (colliding keys / set members)


def base_exprs():
    return [("int", 7), ("n", 0), ("n", 1), ("n", 2), ("op",), ("opn", 0)]


def depth1():
    B = base_exprs()
    out = []
    for T in ("list", "tuple"):
        for k in range(3):
            for items in itertools.product(B, repeat=k):
                out.append((T, list(items)))
    H = [("int", 7), ("n", 0), ("n", 1), ("n", 2)]
    for k in range(3):
        for items in itertools.combinations(H, k):
            out.append(("set", list(items)))
    K = [("int", 7), ("str", "k"), ("n", 0), ("n", 2)]
    V = [("int", 7), ("n", 0), ("op",)]
    pairs = [(k, v) for k in K for v in V]
    out.append(("dict", []))
    for p in pairs:
        out.append(("dict", [p]))
    for p, q in itertools.product(pairs, repeat=2):
        out.append(("dict", [p, q]))
    return out


def hashable(expr):
    t = expr[0]
    if t in ("int", "str", "n", "lit"):
        return True
    if t == "tuple":
        return all(hashable(c) for c in expr[1])
    return False


def depth2(tier):
    d1 = depth1()
    B = base_exprs()
    out = []
    inner = d1 if tier != "quick" else [e for i, e in enumerate(d1) if _has_node(e) or i % 7 == 0]
    for e in inner:
        out.append(("list", [e]))
        out.append(("tuple", [e]))
        out.append(("dict", [(("str", "k"), e)]))
        if hashable(e):
            out.append(("set", [e]))
            out.append(("dict", [(e, ("int", 7))]))
        for b in B[:3]:
            out.append(("list", [e, b]))
            out.append(("tuple", [b, e]))
    if tier != "quick":
        small = [e for e in d1 if len(e[1]) <= 1]
        for e, f in itertools.product(small, repeat=2):
            out.append(("list", [e, f]))
            out.append(("dict", [(("str", "a"), e), (("str", "b"), f)]))
        for e in inner:
            for T in ("list", "tuple"):
                out.append((T, [(T, [e])]))  # depth 3
    return out


def _has_node(e):
    t = e[0]
    if t == "n":
        return True
    if t in ("list", "tuple", "set"):
        return any(_has_node(c) for c in e[1])
    if t == "dict":
        return any(_has_node(k) or _has_node(v) for k, v in e[1])
    return False


def programs(tier):
    """Yield (family, program)."""
    exprs = base_exprs() + depth1() + depth2(tier)
    # equal-but-distinguishable leaves next to a node, and twice the same node-free container
    exprs += [("list", [("n", 0), ("lit", 1), ("lit", True), ("lit", 1.0)]), ("tuple", [("lit", 0.0), ("lit", -0.0), ("n", 1)]),
              ("list", [("tuple", [("int", 7)]), ("tuple", [("int", 7)]), ("n", 0)]),
              ("dict", [(("str", "a"), ("lit", True)), (("str", "b"), ("lit", 1)), (("str", "c"), ("n", 0))])]
    # F1: one call over every expression; F1o: every expression as the output specification
    for e in exprs:
        yield "expr-as-argument", {"calls": BASE_CALLS + [("f", [e], [])], "output": ("n", 3)}
        yield "expr-as-keyword", {"calls": BASE_CALLS + [("f", [], [("kw", e)])], "output": ("n", 3)}
        yield "expr-as-output", {"calls": BASE_CALLS, "output": e}
    # F2: argument plumbing
    # includes values that are equal but distinguishable (1 / True / 1.0) and an equal-but-distinct hashable container
    A = [("int", 7), ("n", 0), ("n", 1), ("list", [("n", 0)]), ("op",), ("lit", 1), ("lit", True), ("lit", 1.0), ("tuple", [("int", 7)])]
    kws = [[]]
    for names in (("a",), ("b",), ("a", "b"), ("b", "a")):
        for vals in itertools.product(A, repeat=len(names)):
            kws.append(list(zip(names, vals)))
    maxpos = 2 if tier == "quick" else 3
    for k in range(maxpos + 1):
        for pos in itertools.product(A, repeat=k):
            for kw in kws:
                yield "argument-plumbing", {"calls": BASE_CALLS + [("f", list(pos), kw)], "output": ("n", 3)}
    # F3: chains of <= 3 further calls, each consuming earlier ones in every position
    def arg_menu(navail):
        m = [("int", 7)]
        for i in range(navail):
            m += [("n", i), ("list", [("n", i)])]
        if navail >= 2:
            m.append(("dict", [(("n", navail - 1), ("n", navail - 2))]))
            m.append(("tuple", [("n", navail - 2), ("n", navail - 1)]))
        return m

    for k1 in range(0, 2):
        for a1 in itertools.product(arg_menu(0), repeat=k1):
            c1 = ("g0", list(a1), [])
            for k2 in range(1, 3):
                for a2 in itertools.product(arg_menu(1), repeat=k2):
                    c2 = ("g1", list(a2[:1]), [("x", a2[1])] if k2 == 2 else [])
                    menu3 = arg_menu(2)
                    for a3 in itertools.product(menu3, repeat=2):
                        c3 = ("g2", [a3[0]], [("y", a3[1])])
                        for out in (("n", 2), ("list", [("n", 0), ("n", 2)]), ("dict", [(("str", "r"), ("n", 2)), (("n", 1), ("n", 0))])):
                            yield "call-chains", {"calls": [c1, c2, c3], "output": out}
    # F4: unpack
    for kind in ("tuple", "list", "iter", "count", "dict-int-keys", "dict-str-keys", "record", "set", "str", "range", "deque"):
        for L in range(0, 5):
            if kind == "count" and L:
                continue
            for n in range(0, 4):
                for use in ("items", "call"):
                    yield "unpack", {"calls": [], "unpack": (kind, L, n), "use": use, "output": None}


def node_count(p):
    return len(p["calls"]) + (p.get("unpack") or (0, 0, 0))[2]


class Unsupported(Exception):
    pass


def build(p):
    """Returns (plan, output_obj, ref_fn(vals)->expected output, ident set, node list, expected_error)"""
    import uberjob

    plan = uberjob.Plan()
    ident = set()
    nodes = []
    steps = []  # per node: function vals -> value
    for name, pos, kw in p["calls"]:
        bp = [mk(e, nodes, ident) for e in pos]
        bk = [(k, mk(e, nodes, ident)) for k, e in kw]
        node = plan.call(make_fn(name), *[b.obj for b in bp], **{k: b.obj for k, b in bk})
        nodes.append(node)
        steps.append(lambda vals, name=name, bp=bp, bk=bk: Rec(name, tuple(b.ref(vals) for b in bp), tuple((k, b.ref(vals)) for k, b in bk)))
    err = None
    if p.get("unpack"):
        kind, L, n = p["unpack"]
        data = [("item", i) for i in range(L)]

        def src():
            if kind == "tuple":
                return tuple(data)
            if kind == "list":
                return list(data)
            if kind == "iter":
                return iter(list(data))
            if kind == "count":
                return itertools.count()
            # objects that have __len__/__getitem__ but whose indexing is not their iteration:
            # unpack must yield the n items of ITERATION
            if kind == "dict-int-keys":
                return {L - 1 - i: ("v", i) for i in range(L)}          # iteration: keys L-1 .. 0
            if kind == "dict-str-keys":
                return {f"k{i}": ("v", i) for i in range(L)}
            if kind == "record":
                return Record(list(data))
            if kind == "set":
                return set(range(L))
            if kind == "str":
                return "abcdefg"[:L]
            if kind == "range":
                return range(10, 10 + L)
            import collections
            return collections.deque(data)
        src.__name__ = "src"
        expected_items = None if kind == "count" else list(src())
        s = plan.call(src)
        items = plan.unpack(s, n)
        # with n == 0 there are no item nodes: nothing requested depends on the unpack call, so it never runs
        if n > 0 and (kind == "count" or L != n):
            err = ValueError
        exp_items = (expected_items or [])[:n]
        if p["use"] == "items":
            out_obj = list(items)
            return plan, out_obj, (lambda vals: list(exp_items)), ident, nodes, err
        c = plan.call(make_fn("h"), *items)
        return plan, c, (lambda vals: Rec("h", tuple(exp_items), ())), ident, nodes, err
    bo = mk(p["output"], nodes, ident)

    def ref(vals_unused):
        vals = []
        for st in steps:
            vals.append(st(vals))
        return bo.ref(vals)
    return plan, bo.obj, ref, ident, nodes, err


def check_program(p, W, sched, run=None, retry=None, flaky=0):
    """Returns None or a message.  retry/flaky: every function fails transiently `flaky` times and the run retries."""
    import uberjob

    FLAKY["k"], FLAKY["seen"] = flaky, {}
    try:
        return _check_program(p, W, sched, run, retry)
    finally:
        FLAKY["k"], FLAKY["seen"] = 0, {}


def _check_program(p, W, sched, run, retry):
    import uberjob

    try:
        plan, out_obj, ref, ident, nodes, err = build(p)
    except TypeError:
        raise Unsupported()  # the user could not even write this expression (unhashable set member / dict key)
    try:
        kw = {} if retry is None else {"retry": retry}
        got = (run or uberjob.run)(plan, output=out_obj, max_workers=W, scheduler=sched, progress=None, **kw)
    except uberjob.CallError as e:
        if err is not None and isinstance(e.__cause__, err):
            return None
        return f"run raised CallError caused by {e.__cause__!r}"
    except Exception as e:  # noqa
        return f"run raised {type(e).__name__}: {e}"
    if err is not None:
        return f"unpack of a wrong-length iterable did not raise (returned {got!r})"
    exp = ref(None)
    return deep_same(got, exp, ident)


def _passthrough_retry(f):
    def g(*a, **k):
        return f(*a, **k)
    return g


def _shard(payload):
    tier, k, nshards = payload
    n = 0
    skipped = 0
    fails = []
    fam = {}
    for idx, (family, p) in enumerate(programs(tier)):
        if idx % nshards != k:
            continue
        modes = [(1, "default", None, 0), (1, "random", None, 0), (2, "default", None, 0), (1, "default", 3, 2)]
        if tier != "quick":
            modes += [(2, "random", 2, 1), (1, "default", 3, 1), (1, "default", _passthrough_retry, 0)]
        if p.get("unpack") and p["unpack"][0] in ("iter", "inf") and p["unpack"][1] != p["unpack"][2]:
            # re-invoking a failed unpack on a one-shot iterator finds it partly consumed: retrying is the
            # user's choice and not idempotent here, so the wrong-length cases are explored without retry
            modes = [m for m in modes if m[2] is None]
        for W, sched, retry, flaky in modes:
            try:
                msg = check_program(p, W, sched, retry=retry, flaky=flaky)
                if msg and retry is not None:
                    msg = f"[retry={getattr(retry, '__name__', retry)}, every function fails transiently {flaky}x] " + msg
            except Unsupported:
                skipped += 1
                break
            n += 1
            fam[family] = fam.get(family, 0) + 1
            if msg:
                fails.append((family, idx, W, sched, msg, repr(p)[:300], retry if retry is None or isinstance(retry, int) else "passthrough", flaky))
    return {"n": n, "skipped": skipped, "fails": fails[:30], "nfails": len(fails), "fam": fam}


# ---------------------------------------------------------------------------------------------
# E1: schedule independence on the largest programs
# ---------------------------------------------------------------------------------------------


class ProgHarness(e1.Harness):
    horizon = 8000

    def __init__(self, cfg):
        from ..engine import patch_engine

        patch_engine()
        self.cfg = cfg
        self.p = cfg["program"]

    def setup(self, s):
        from .. import dethash

        dethash.begin_execution()
        return {}

    def body(self, ctx):
        ctx["msg"] = check_program(self.p, self.cfg["W"], self.cfg["sched"])
        return ctx["msg"]

    def check(self, x):
        msgs = []
        if x.status != "ok":
            msgs.append(("C07", f"{x.status}: {x.sched.deadlock_info}"))
        mr = x.sched.main_result
        if mr and mr[0] == "exc":
            msgs.append(("C02", f"harness body raised {mr[1]!r}"))
        elif mr and mr[1]:
            msgs.append(("C02", mr[1]))
        return msgs, (x.status, bool(msgs))


def e1_cfgs(tier):
    pick = []
    for family, p in programs("quick"):
        if family == "call-chains":
            pick.append(p)
    step = max(1, len(pick) // (40 if tier == "quick" else 200))
    pick = pick[::step]
    unp = [p for f, p in programs("quick") if f == "unpack" and p["unpack"][1] == p["unpack"][2] == 3]
    return [{"program": p, "W": 2, "sched": sc} for p in pick + unp for sc in ("default", "random")]


def run(tier):
    nshards = common.ncores() * 4
    res = common.pmap(_shard, [(tier, k, nshards) for k in range(nshards)])
    viols = []
    n = sum(r["n"] for r in res)
    fam = {}
    for r in res:
        for k, v in r["fam"].items():
            fam[k] = fam.get(k, 0) + v
        for family, idx, W, sched, msg, prog, rt, flaky in r["fails"]:
            key = f"{family} :: {msg.split(':')[0][:40]} :: {msg[:60]}"
            viols.append(common.Violation(PROP, key, f"program #{idx} ({family}), {W} worker(s), scheduler {sched}: {msg}; program {prog}",
                                          {"engine": "E3", "tier": tier, "index": idx, "W": W, "sched": sched, "retry": rt, "flaky": flaky}))
    cfgs = e1_cfgs(tier)
    agg = e1run.explore(FACTORY, cfgs, {"preempt": 1, "random": 1})
    v2, notes = e1run.to_violations(PROP, agg, FACTORY, {"preempt": 1, "random": 1})
    viols += v2
    cov = {
        "evaluations": n + agg["executions"],
        "distinct_nontrivial": n // (4 if tier == "quick" else 7),
        "programs_by_family": fam,
        "programs_skipped_not_writable_by_a_user": sum(r["skipped"] for r in res),
        "e1_programs": len(cfgs), "e1_executions": agg["executions"], "e1_schedule_tree_nodes": agg["tree_nodes"], "e1_capped": agg["capped"],
        "rule": ("all programs of four families: (1) every expression of nesting depth <= 2 (thorough: 3) over {int, three nodes two of which evaluate equal, opaque list subclass, list subclass holding a Node} "
                 "in list/tuple/set/dict (nodes as keys, colliding keys) as positional argument, keyword argument and output specification; (2) every mix of <= 2 (3) positional and <= 2 keyword arguments in both keyword orders over 5 values; "
                 "(3) every chain of 3 calls consuming earlier results in every position; (4) unpack of tuple/list/iterator/infinite iterator of length 0..4 into 0..3 items; each under 1 worker x {default, random} and 2 workers, and with every function failing transiently N-1 times under retry=N (thorough: also success on a middle attempt, a pass-through user decorator); "
                 "reference = independent recursive evaluation with identity tracking; plus every schedule with <= 1 preemption (2 workers) of selected chain / unpack programs under E1"),
        "samples": [{"family": "expr-as-argument", "program": repr({"calls": BASE_CALLS + [("f", [("dict", [(("n", 0), ("int", 7)), (("n", 2), ("op",))])], [])], "output": ("n", 3)})}],
        "exhaustive": not agg["capped"],
    }
    return {"violations": viols, "notes": notes, "coverage": cov, "level": "exploration",
            "assumptions": ["sets whose members are equal but distinguishable are compared by equality only (the surviving member depends on the address order of the user's own set)"]}


def replay(rep):
    if rep.get("engine") == "E1":
        msgs = e1run.replay(rep)
        return [m for t, m in msgs if t == PROP]
    for idx, (family, p) in enumerate(programs(rep.get("tier", "quick"))):
        if idx == rep["index"]:
            rt = rep.get("retry")
            msg = check_program(p, rep["W"], rep["sched"], retry=_passthrough_retry if rt == "passthrough" else rt, flaky=rep.get("flaky", 0))
            print("program:", p)
            print("ORACLE:", msg)
            return [msg] if msg else []
    return ["program index not found"]
