"""C03 - an incremental run gives the same outputs and stored values as from scratch.

E2: BFS to fixpoint over store states; oracle after every successful RUN in every reachable state.
"""
from .. import e2prop

KW = dict(tags=["C03"], norm=False)
PROP = "C03"


def run(tier):
    return e2prop.run(PROP, tier, **KW)


def replay(rep):
    return e2prop.replay(PROP, rep, tags=KW.get("tags"))
