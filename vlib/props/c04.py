"""C04 - each needed call runs exactly once and nothing unneeded runs.

Same engine explorations as C01 (own oracle: start count <= 1, executed set,
queue drained) plus API-level enumeration of output specifications with
unneeded calls (one of which raises if it is ever run), plus runs that OVERLAP in
time in one process (a call that itself runs an inner plan; two threads each running
their own plan): every run executes exactly its own needed calls, once.
"""
from .. import e1, e1prop, engine, planh
from ..e1prop import ENGINE, PLAN, with_

PROP = "C04"


def api_cfgs(n, Ws, kinds=("p", "d", "l")):
    outs = ([None, "lit", "nested"] + [[i] for i in range(n)] + [[0, n - 1]] + [list(range(n))]
            + [n - 1, {"litdep": n - 1}, {"litdep": 0}])
    for e in planh.plan_configs(n, kinds=kinds):
        for out in outs:
            needed = set()
            if out == "nested":
                needed = {0, n - 1}
            elif isinstance(out, list):
                needed = set(out)
            elif isinstance(out, int):
                needed = {out}
            elif isinstance(out, dict):
                needed = {out["litdep"]}
            anc = engine.ancestors(n, [(i, j) for i, j, _ in e])
            closure = set(needed)
            for i in needed:
                closure |= anc[i]
            # every call the output does not need raises if run: it must never run
            fail = {str(i): "exc" for i in range(n) if i not in closure}
            for W, sc in Ws:
                yield {"n": n, "edges": e, "output": out, "W": W, "sched": sc, "fail": fail}


def explorations(tier):
    EC = engine.engine_configs
    scheds = ["cheap", "default", "random"]
    det = ["cheap", "default"]
    ex = []
    if tier == "quick":
        ex.append(("engine G3 W=1 sync b<=2, all random draws", ENGINE, EC([3], [1], scheds), {"preempt": 2}))
        ex.append(("engine G3 W=2 sync b<=2", ENGINE, EC([3], [2], det), {"preempt": 2}))
        ex.append(("engine G3 W=2 random b<=1, all draws", ENGINE, EC([3], [2], ["random"]), {"preempt": 1}))
        ex.append(("engine G3 W=2 bytecode b<=1", ENGINE, with_(EC([3], [2], scheds), bc=True), {"preempt": 1, "random": 1}))
        ex.append(("engine G4-join W=2 bytecode b<=1", ENGINE,
                   with_(EC([4], [2], ["default"], only_join=True, variants=False), bc=True), {"preempt": 1}))
        ex.append(("api outputs n=3: W=1 every pop order", PLAN, api_cfgs(3, [(1, "random")]), {"preempt": 0}))
        ex.append(("api outputs n=3: W=2 default b<=1", PLAN, api_cfgs(3, [(2, "default")], kinds=("p", "d")), {"preempt": 1}))
        # a run that returns normally must have executed everything the output needs - also when calls raise
        # (Exception / BaseException / SystemExit): it may only *return* if nothing needed was skipped
        from .c06 import api_fail_cfgs, engine_fail_cfgs
        ex.append(("engine G3 x fault patterns, W=2..3, b<=1", ENGINE, engine_fail_cfgs([3], [2, 3], ["default"], max_errors=(0, None)), {"preempt": 1}))
        ex.append(("api plans n=3 x fault patterns, W=2, b<=1", PLAN, api_fail_cfgs(3, [(2, "default")], kinds=("p", "d"), max_errors=(0, None)), {"preempt": 1}))
        nested, conc = overlap_cfgs(tier)
        ex.append(("overlapping runs: a call runs an inner plan (inner succeeds / fails), b<=1", OVERLAP, nested, {"preempt": 1, "random": 1, "yield": 1}))
        ex.append(("overlapping runs: two threads each run their own plan, b<=1", OVERLAP, conc, {"preempt": 1, "random": 1, "yield": 1}))
    else:
        nested, conc = overlap_cfgs(tier)
        ex.append(("overlapping runs: a call runs an inner plan (inner succeeds / fails), b<=2", OVERLAP, nested, {"preempt": 2, "random": 1, "yield": 1}))
        ex.append(("overlapping runs: two threads each run their own plan, b<=2", OVERLAP, conc, {"preempt": 2, "random": 1, "yield": 1}))
        ex.append(("engine G3/G4 W=1 sync b<=2, all random draws", ENGINE, EC([3, 4], [1], scheds), {"preempt": 2}))
        ex.append(("engine G3 W=2 sync b<=3", ENGINE, EC([3], [2], det), {"preempt": 3}))
        ex.append(("engine G3 W=2 random b<=2, all draws", ENGINE, EC([3], [2], ["random"]), {"preempt": 2}))
        ex.append(("engine G3 W=3 sync b<=1", ENGINE, EC([3], [3], scheds), {"preempt": 1, "random": 1}))
        ex.append(("engine G4 W=2 sync b<=2", ENGINE, EC([4], [2], scheds), {"preempt": 2, "random": 1, "yield": 1}))
        ex.append(("engine G3 W=2 bytecode b<=2", ENGINE, with_(EC([3], [2], scheds), bc=True), {"preempt": 2, "random": 1, "yield": 1}))
        ex.append(("engine G4-join W=2 bytecode b<=1, default and random queue", ENGINE,
                   with_(EC([4], [2], ["default", "random"], only_join=True), bc=True), {"preempt": 1, "random": 1}))
        ex.append(("api outputs n=3, six edge kinds: W=1 every pop order, W=2 b<=1", PLAN,
                   api_cfgs(3, [(1, "random"), (2, "default")], kinds=("p", "k", "d", "pd", "l", "la")), {"preempt": 1, "random": 2, "yield": 1}))
        ex.append(("api outputs n=3, argument / dependency / literal edges: W=2 b<=2", PLAN,
                   api_cfgs(3, [(2, "default")], kinds=("p", "d", "l")), {"preempt": 2, "random": 1, "yield": 0}))
        ex.append(("api outputs n=4: W=1 every pop order", PLAN, api_cfgs(4, [(1, "random")], kinds=("p", "d")), {"preempt": 0}))
        from .c06 import api_fail_cfgs, engine_fail_cfgs
        ex.append(("engine G3 x fault patterns, W=2, b<=2", ENGINE, engine_fail_cfgs([3], [2], ["default", "random"], max_errors=(0, 1, None)), {"preempt": 2, "random": 1, "yield": 1}))
        ex.append(("engine G3 x fault patterns, W=3, b<=1", ENGINE, engine_fail_cfgs([3], [3], ["default"], max_errors=(0, None)), {"preempt": 1, "random": 1}))
        ex.append(("api plans n=3 x fault patterns, W=2, b<=2", PLAN, api_fail_cfgs(3, [(2, "default")], kinds=("p", "d", "l"), max_errors=(0, None)), {"preempt": 2, "random": 1, "yield": 0}))
    return ex


class OverlapHarness(e1.Harness):
    """Two runs overlapping in time in one process: a call of the outer plan itself runs an inner plan
    ('nested'), or two threads each run their own plan ('concurrent').  Each run's calls are its own:
    every needed call of EACH run executes exactly once whatever the other run does (finishes first,
    fails and stops, is stopped by max_errors)."""

    horizon = 20000

    def __init__(self, cfg):
        from ..engine import patch_engine

        patch_engine()
        self.cfg = cfg

    def setup(self, s):
        from .. import dethash

        dethash.begin_execution()
        s.ctx = {"counts": {}, "res": {}}
        return s.ctx

    def _plan(self, uberjob, ctx, tag, shape, fail=None, nested_at=None, inner=None):
        """shape: 'chain3' a->b->c | 'fork' a->(b,c)->d | 'flat3' three independent calls + a gather."""
        plan = uberjob.Plan()
        counts = ctx["counts"]

        def mk(name):
            def f(*a):
                key = f"{tag}.{name}"
                counts[key] = counts.get(key, 0) + 1
                e1.sched().log("start", key)
                e1.hpoint(("call", key))
                extra = 0
                if nested_at == name:
                    extra = inner()
                if fail == name:
                    raise ValueError(f"{key} fails")
                return sum(a) + 1 + extra
            f.__name__ = f.__qualname__ = f"{tag}_{name}"
            return f

        if shape == "chain3":
            a = plan.call(mk("a")); b = plan.call(mk("b"), a); c = plan.call(mk("c"), b)  # noqa: E702
            return plan, c, ["a", "b", "c"]
        if shape == "fork":
            a = plan.call(mk("a")); b = plan.call(mk("b"), a); c = plan.call(mk("c"), a); d = plan.call(mk("d"), b, c)  # noqa: E702
            return plan, d, ["a", "b", "c", "d"]
        xs = [plan.call(mk(n)) for n in "abc"]
        return plan, xs, ["a", "b", "c"]

    @staticmethod
    def _expected(shape, extra_at=None, extra=0):
        e = lambda n: extra if extra_at == n else 0  # noqa: E731
        if shape == "chain3":
            a = 1 + e("a"); b = a + 1 + e("b"); return b + 1 + e("c")  # noqa: E702
        if shape == "fork":
            a = 1 + e("a"); b = a + 1 + e("b"); c = a + 1 + e("c"); return b + c + 1 + e("d")  # noqa: E702
        return [1 + e(n) for n in "abc"]

    def body(self, ctx):
        import uberjob

        cfg = self.cfg
        res = ctx["res"]

        def do_run(tag, shape, W, sched, fail=None, max_errors=0, nested_at=None, inner=None):
            plan, out, names = self._plan(uberjob, ctx, tag, shape, fail, nested_at, inner)
            try:
                res[tag] = ("ret", uberjob.run(plan, output=out, max_workers=W, scheduler=sched, max_errors=max_errors, progress=None))
            except uberjob.CallError as e:
                res[tag] = ("exc", type(e.__cause__).__name__)
            return res[tag]

        if cfg["mode"] == "nested":
            n_inner = [0]

            def inner():
                n_inner[0] += 1
                r = do_run(f"inner{n_inner[0]}", cfg["inner_shape"], cfg["Wi"], cfg["sched"], fail=cfg.get("inner_fail"), max_errors=cfg.get("inner_max_errors", 0))
                return 100 if r[0] == "ret" else 50
            do_run("outer", cfg["shape"], cfg["W"], cfg["sched"], nested_at=cfg["at"], inner=inner)
        else:
            ts = [e1.Thread(target=lambda t=t, c=c: do_run(t, c["shape"], c["W"], cfg["sched"], fail=c.get("fail"), max_errors=c.get("max_errors", 0)))
                  for t, c in zip("AB", cfg["runs"])]
            for t in ts:
                t.start()
            for t in ts:
                t.join()
        return dict(res)

    def check(self, x):
        msgs = []
        s = x.sched
        if x.status != "ok":
            msgs.append(("C07", f"{x.status}: {s.deadlock_info}"))
            return msgs, (x.status,)
        if s.uncaught:
            msgs.append(("C07", f"uncaught exception in a thread: {s.uncaught}"))
        cfg = self.cfg
        counts, res = x.ctx["counts"], x.ctx["res"]
        runs = []
        if cfg["mode"] == "nested":
            inner_ok = cfg.get("inner_fail") is None
            runs.append(("outer", cfg["shape"], None, self._expected(cfg["shape"], cfg["at"], 100 if inner_ok else 50)))
            runs.append(("inner1", cfg["inner_shape"], cfg.get("inner_fail"), self._expected(cfg["inner_shape"])))
        else:
            for t, c in zip("AB", cfg["runs"]):
                runs.append((t, c["shape"], c.get("fail"), self._expected(c["shape"])))
        for tag, shape, fail, exp in runs:
            names = ["a", "b", "c", "d"] if shape == "fork" else ["a", "b", "c"]
            r = res.get(tag)
            got = {n: counts.get(f"{tag}.{n}", 0) for n in names}
            if fail is None:
                bad = {n: k for n, k in got.items() if k != 1}
                if bad:
                    msgs.append(("C04", f"run {tag} ({shape}) overlapping another run: needed calls executed {bad} times (each must run exactly once); run gave {r}"))
                if r is None or r[0] != "ret":
                    msgs.append(("C06", f"run {tag}: no call of this run raised but it gave {r}"))
                elif r[1] != exp:
                    msgs.append(("C02", f"run {tag} returned {r[1]!r}, direct evaluation gives {exp!r}"))
            else:
                if any(k > 1 for k in got.values()):
                    msgs.append(("C04", f"run {tag}: calls executed more than once: {got}"))
                if got[fail] == 1 and (r is None or r[0] != "exc"):
                    msgs.append(("C06", f"run {tag}: call {fail} raised but the run gave {r}"))
        order = tuple(e[1] for e in s.events if e[0] == "start")
        return msgs, (x.status, order, tuple(sorted((k, v[0]) for k, v in res.items())))


OVERLAP = "vlib.props.c04:OverlapHarness"


def overlap_cfgs(tier):
    nested, conc = [], []
    shapes = ("chain3", "fork", "flat3")
    for sched in ("default", "random"):
        for shape in shapes:
            for at in (("a", "b", "c", "d") if shape == "fork" else ("a", "b", "c")):
                for W in (1, 2):
                    for inner_fail in (None, "a", "c"):
                        for ish in ("chain3",):
                            if tier == "quick" and (W == 2 and inner_fail == "a"):
                                continue
                            nested.append({"mode": "nested", "shape": shape, "at": at, "W": W, "Wi": 1, "sched": sched, "inner_shape": ish,
                                           "inner_fail": inner_fail, "inner_max_errors": 0})
        for sa in shapes:
            for fb in (None, "a", "b"):
                conc.append({"mode": "concurrent", "sched": sched,
                             "runs": [{"shape": sa, "W": 1}, {"shape": "chain3", "W": 1, "fail": fb, "max_errors": 0}]})
    return nested, conc


def check_retry_once():
    """Sequential: with retry in {None,1,2,3, custom decorator} every needed call runs exactly once whatever it
    returns (None, 0, False, '', (), an object) - a success is a success even when the value is falsy."""
    import uberjob
    from .. import common

    viols = []
    n = 0
    values = [None, 0, False, "", (), [], 1, "x"]

    def passthrough(f):
        return f

    for retry in (None, 1, 2, 3, passthrough):
        for W, sc in ((1, "default"), (1, "random"), (3, "default")):
            n += 1
            counts = {}
            plan = uberjob.Plan()

            def mk(name, value):
                def f(*a):
                    counts[name] = counts.get(name, 0) + 1
                    return value
                f.__name__ = name
                return f

            a = plan.call(mk("a", 1))
            steps = [plan.call(mk(f"v{i}", v), a) for i, v in enumerate(values)]
            side = plan.call(mk("side", None))
            last = plan.call(mk("last", None), *steps)
            plan.add_dependency(side, last)
            unneeded = plan.call(mk("unneeded", None), last)  # noqa: F841
            try:
                uberjob.run(plan, output=last, retry=retry, max_workers=W, scheduler=sc, progress=None)
            except Exception as e:  # noqa
                viols.append(common.Violation(PROP, f"retry-once :: raised {type(e).__name__}", f"retry={retry!r}: run raised {e!r}", {"engine": "retry-once"}))
                continue
            expect = {"a": 1, "side": 1, "last": 1, **{f"v{i}": 1 for i in range(len(values))}}
            if counts != expect:
                bad = {k: v for k, v in counts.items() if expect.get(k) != v}
                rname = getattr(retry, "__name__", retry)
                viols.append(common.Violation(PROP, f"retry-once :: calls executed {sorted(bad)} times != 1",
                                              f"retry={rname!r}, {W} worker(s), {sc}: execution counts {bad} (every needed call must run exactly once, unneeded never); returned values were {values}",
                                              {"engine": "retry-once"}))
    return viols, {"retry_once_cases": n}


def run(tier):
    v, cov = check_retry_once()
    return e1prop.run(PROP, explorations(tier), extra_cov=cov, extra_viol=v)


def replay(rep):
    if rep.get("engine") == "retry-once":
        v, _ = check_retry_once()
        return [x.message for x in v]
    return e1prop.replay(PROP, rep)
