"""C04 - each needed call runs exactly once and nothing unneeded runs.

Same engine explorations as C01 (own oracle: start count <= 1, executed set,
queue drained) plus API-level enumeration of output specifications with
unneeded calls (one of which raises if it is ever run).
"""
from .. import e1prop, engine, planh
from ..e1prop import ENGINE, PLAN, with_

PROP = "C04"


def api_cfgs(n, Ws, kinds=("p", "d", "l")):
    outs = ([None, "lit", "nested"] + [[i] for i in range(n)] + [[0, n - 1]] + [list(range(n))]
            + [n - 1, {"litdep": n - 1}, {"litdep": 0}])
    for e in planh.plan_configs(n, kinds=kinds):
        for out in outs:
            needed = set()
            if out == "nested":
                needed = {0, n - 1}
            elif isinstance(out, list):
                needed = set(out)
            elif isinstance(out, int):
                needed = {out}
            elif isinstance(out, dict):
                needed = {out["litdep"]}
            anc = engine.ancestors(n, [(i, j) for i, j, _ in e])
            closure = set(needed)
            for i in needed:
                closure |= anc[i]
            # every call the output does not need raises if run: it must never run
            fail = {str(i): "exc" for i in range(n) if i not in closure}
            for W, sc in Ws:
                yield {"n": n, "edges": e, "output": out, "W": W, "sched": sc, "fail": fail}


def explorations(tier):
    EC = engine.engine_configs
    scheds = ["cheap", "default", "random"]
    det = ["cheap", "default"]
    ex = []
    if tier == "quick":
        ex.append(("engine G3 W=1 sync b<=2, all random draws", ENGINE, EC([3], [1], scheds), {"preempt": 2}))
        ex.append(("engine G3 W=2 sync b<=2", ENGINE, EC([3], [2], det), {"preempt": 2}))
        ex.append(("engine G3 W=2 random b<=1, all draws", ENGINE, EC([3], [2], ["random"]), {"preempt": 1}))
        ex.append(("engine G3 W=2 bytecode b<=1", ENGINE, with_(EC([3], [2], scheds), bc=True), {"preempt": 1, "random": 1}))
        ex.append(("engine G4-join W=2 bytecode b<=1", ENGINE,
                   with_(EC([4], [2], ["default"], only_join=True, variants=False), bc=True), {"preempt": 1}))
        ex.append(("api outputs n=3: W=1 every pop order", PLAN, api_cfgs(3, [(1, "random")]), {"preempt": 0}))
        ex.append(("api outputs n=3: W=2 default b<=1", PLAN, api_cfgs(3, [(2, "default")], kinds=("p", "d")), {"preempt": 1}))
        # a run that returns normally must have executed everything the output needs - also when calls raise
        # (Exception / BaseException / SystemExit): it may only *return* if nothing needed was skipped
        from .c06 import api_fail_cfgs, engine_fail_cfgs
        ex.append(("engine G3 x fault patterns, W=2..3, b<=1", ENGINE, engine_fail_cfgs([3], [2, 3], ["default"], max_errors=(0, None)), {"preempt": 1}))
        ex.append(("api plans n=3 x fault patterns, W=2, b<=1", PLAN, api_fail_cfgs(3, [(2, "default")], kinds=("p", "d"), max_errors=(0, None)), {"preempt": 1}))
    else:
        ex.append(("engine G3/G4 W=1 sync b<=2, all random draws", ENGINE, EC([3, 4], [1], scheds), {"preempt": 2}))
        ex.append(("engine G3 W=2 sync b<=3", ENGINE, EC([3], [2], det), {"preempt": 3}))
        ex.append(("engine G3 W=2 random b<=2, all draws", ENGINE, EC([3], [2], ["random"]), {"preempt": 2}))
        ex.append(("engine G3 W=3 sync b<=2", ENGINE, EC([3], [3], scheds), {"preempt": 2, "random": 1}))
        ex.append(("engine G4 W=2 sync b<=2", ENGINE, EC([4], [2], scheds), {"preempt": 2, "random": 1}))
        ex.append(("engine G3 W=2 bytecode b<=2", ENGINE, with_(EC([3], [2], scheds), bc=True), {"preempt": 2, "random": 1}))
        ex.append(("engine G4-join W=2 bytecode b<=2", ENGINE,
                   with_(EC([4], [2], ["default", "random"], only_join=True), bc=True), {"preempt": 2, "random": 1}))
        ex.append(("api outputs n=3: W=1 every pop order, W=2 b<=2", PLAN,
                   api_cfgs(3, [(1, "random"), (2, "default"), (2, "random")], kinds=planh.EDGE_KINDS), {"preempt": 2, "random": 2}))
        ex.append(("api outputs n=4: W=1 every pop order", PLAN, api_cfgs(4, [(1, "random")], kinds=("p", "d")), {"preempt": 0}))
        from .c06 import api_fail_cfgs, engine_fail_cfgs
        ex.append(("engine G3 x fault patterns, W=2..3, b<=2", ENGINE, engine_fail_cfgs([3], [2, 3], ["default", "random"], max_errors=(0, 1, None)), {"preempt": 2, "random": 1}))
        ex.append(("api plans n=3 x fault patterns, W=2, b<=2", PLAN, api_fail_cfgs(3, [(2, "default"), (2, "random")], kinds=("p", "d", "l"), max_errors=(0, None)), {"preempt": 2, "random": 1}))
    return ex


def check_retry_once():
    """Sequential: with retry in {None,1,2,3, custom decorator} every needed call runs exactly once whatever it
    returns (None, 0, False, '', (), an object) - a success is a success even when the value is falsy."""
    import uberjob
    from .. import common

    viols = []
    n = 0
    values = [None, 0, False, "", (), [], 1, "x"]

    def passthrough(f):
        return f

    for retry in (None, 1, 2, 3, passthrough):
        for W, sc in ((1, "default"), (1, "random"), (3, "default")):
            n += 1
            counts = {}
            plan = uberjob.Plan()

            def mk(name, value):
                def f(*a):
                    counts[name] = counts.get(name, 0) + 1
                    return value
                f.__name__ = name
                return f

            a = plan.call(mk("a", 1))
            steps = [plan.call(mk(f"v{i}", v), a) for i, v in enumerate(values)]
            side = plan.call(mk("side", None))
            last = plan.call(mk("last", None), *steps)
            plan.add_dependency(side, last)
            unneeded = plan.call(mk("unneeded", None), last)  # noqa: F841
            try:
                uberjob.run(plan, output=last, retry=retry, max_workers=W, scheduler=sc, progress=None)
            except Exception as e:  # noqa
                viols.append(common.Violation(PROP, f"retry-once :: raised {type(e).__name__}", f"retry={retry!r}: run raised {e!r}", {"engine": "retry-once"}))
                continue
            expect = {"a": 1, "side": 1, "last": 1, **{f"v{i}": 1 for i in range(len(values))}}
            if counts != expect:
                bad = {k: v for k, v in counts.items() if expect.get(k) != v}
                rname = getattr(retry, "__name__", retry)
                viols.append(common.Violation(PROP, f"retry-once :: calls executed {sorted(bad)} times != 1",
                                              f"retry={rname!r}, {W} worker(s), {sc}: execution counts {bad} (every needed call must run exactly once, unneeded never); returned values were {values}",
                                              {"engine": "retry-once"}))
    return viols, {"retry_once_cases": n}


def run(tier):
    v, cov = check_retry_once()
    return e1prop.run(PROP, explorations(tier), extra_cov=cov, extra_viol=v)


def replay(rep):
    if rep.get("engine") == "retry-once":
        v, _ = check_retry_once()
        return [x.message for x in v]
    return e1prop.replay(PROP, rep)
