"""C05 - exactly the out-of-date stored values are rebuilt; a repeated run does nothing.

E2 with the declarative out-of-date oracle and exact event multisets.
"""
from .. import e2prop

KW = dict(tags=["C05"], norm=False)
PROP = "C05"


def run(tier):
    return e2prop.run(PROP, tier, **KW)


def replay(rep):
    return e2prop.replay(PROP, rep, tags=KW.get("tags"))
