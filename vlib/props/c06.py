"""C06 - nothing downstream of a failed call runs; the raised error names a real failure.

E1 over fault patterns: every non-empty subset of nodes raises (Exception,
custom BaseException, SystemExit, an Exception that is itself a uberjob.CallError - assigned round-robin so that every kind occurs
at every position), max_errors in {0, 1, None}, 1-3 workers, all queue kinds.
"""
import itertools

from .. import e1prop, engine, planh
from ..e1prop import ENGINE, PLAN, with_

PROP = "C06"
KINDS = ("exc", "base", "sysexit", "callerror")


def fail_patterns(n, rot=0, max_size=None):
    for r in range(1, (max_size or n) + 1):
        for sub in itertools.combinations(range(n), r):
            yield {str(i): KINDS[(k + rot + r) % len(KINDS)] for k, i in enumerate(sub)}


def engine_fail_cfgs(ns, Ws, scheds, max_errors=(0, 1, None), variants=False, only_multi=False, **kw):
    rot = 0
    for c in engine.engine_configs(ns, Ws, scheds, variants=variants, **kw):
        for fp in fail_patterns(c["n"]):
            if only_multi and len(fp) < 2:
                continue
            for me in max_errors:
                rot += 1
                d = dict(c)
                d["fail"] = {k: KINDS[(KINDS.index(v) + rot) % len(KINDS)] for k, v in fp.items()}
                d["max_errors"] = me
                yield d


def api_fail_cfgs(n, Ws, kinds=("p", "d", "l"), max_errors=(0, None)):
    rot = 0
    for e in planh.plan_configs(n, kinds=kinds):
        for fp in fail_patterns(n):
            for me in max_errors:
                for W, sc in Ws:
                    rot += 1
                    yield {"n": n, "edges": e, "output": list(range(n)), "W": W, "sched": sc,
                           "fail": {k: KINDS[(KINDS.index(v) + rot) % len(KINDS)] for k, v in fp.items()}, "max_errors": me}


def hub_fail_cfgs(Ws):
    """One literal shared by m predecessors and k successors (as dependency or as argument); predecessors fail.
    Exercises literal pruning on both sides of its m*n <= m+n test with a failure upstream of the hub."""
    from .c01 import hub_cfgs

    out = []
    rot = 0
    for c in hub_cfgs(Ws):
        m = len(c["hub"][0])
        for r in range(1, m + 1):
            for fs in itertools.combinations(range(m), r):
                for me in (0, None):
                    rot += 1
                    d = dict(c)
                    d["fail"] = {str(i): KINDS[(i + rot) % len(KINDS)] for i in fs}
                    d["max_errors"] = me
                    out.append(d)
    return out


def explorations(tier):
    scheds = ["cheap", "default", "random"]
    ex = []
    if tier == "quick":
        ex.append(("engine G3 x faults, W=1 sync b<=1, all draws", ENGINE, engine_fail_cfgs([3], [1], scheds), {"preempt": 1}))
        ex.append(("engine G3 x faults, W=2 sync b<=1", ENGINE, engine_fail_cfgs([3], [2], ["default", "random"]), {"preempt": 1, "random": 1}))
        ex.append(("engine G3 x multi-faults, W=2 bytecode b<=1", ENGINE,
                   with_(engine_fail_cfgs([3], [2], ["default"], max_errors=(1, None), only_multi=True), bc=True), {"preempt": 1}))
        ex.append(("api n=3 x faults, W=1 every pop order", PLAN, api_fail_cfgs(3, [(1, "random")]), {"preempt": 0}))
        ex.append(("api n=3 x faults, W=2 default b<=1", PLAN, api_fail_cfgs(3, [(2, "default")], kinds=("p", "d"), max_errors=(0, 1)), {"preempt": 1}))
        ex.append(("api literal hubs m x k with failing predecessors, W=1 every pop order / W=2 b<=1", PLAN, hub_fail_cfgs([1, 2]), {"preempt": 1, "random": 2}))
    else:
        ex.append(("engine G3 x faults, W=1 sync b<=2, all draws", ENGINE, engine_fail_cfgs([3], [1], scheds, variants=True), {"preempt": 2}))
        ex.append(("engine G3 x faults, W=2 sync b<=2", ENGINE, engine_fail_cfgs([3], [2], scheds), {"preempt": 2, "random": 1}))
        ex.append(("engine G3 x faults, W=3 sync b<=1", ENGINE, engine_fail_cfgs([3], [3], ["default"]), {"preempt": 1}))
        ex.append(("engine G3 x multi-faults, W=2 bytecode b<=2", ENGINE,
                   with_(engine_fail_cfgs([3], [2], ["default", "random"], only_multi=True), bc=True), {"preempt": 2, "random": 1}))
        ex.append(("engine G4-join x faults, W=2 sync b<=1", ENGINE, engine_fail_cfgs([4], [2], ["default"], max_errors=(0, None), only_join=True), {"preempt": 1}))
        ex.append(("api n=3 x faults, W=1 every pop order; W=2 b<=2", PLAN,
                   api_fail_cfgs(3, [(1, "random"), (2, "default")], max_errors=(0, 1, None)), {"preempt": 2}))
        ex.append(("api literal hubs m x k with failing predecessors, W=1..3, b<=1, <=2 non-default draws", PLAN, hub_fail_cfgs([1, 2, 3]), {"preempt": 1, "random": 2, "yield": 1}))
        ex.append(("api literal hubs m x k with failing predecessors, W=2, b<=2", PLAN, hub_fail_cfgs([2]), {"preempt": 2, "random": 1, "yield": 0}))
    return ex


def store_failures(tier):
    """E2 part: failures of store reads / writes / side-effect producers (every operation index of every run from every
    reachable state): no call downstream of the failed node may start afterwards.  Plans built in all three orders."""
    from .. import e2fam, e2prop

    names = ("plain-dep-chain", "alias-source-consumed", "alias-source-reader-call", "dependent-source", "dependent-source-chained", "literal-dep-with-dependency") if tier == "quick" else ("diamond", "plain-dep-consumers", "alias-source-consumed", "alias-source-reader-call", "dependent-source", "dependent-source-chained",
             "stored-then-dependent-source", "literal-arg-with-dependency", "barrier-hub-3x2", "stored-literal-with-dependency")
    specs = [(n, s) for n, s in e2fam.CURATED.items() if n in names]
    if tier != "quick":
        specs += [("fam2", s) for s in e2fam.family(2, attach_menu=(None, "a"))]
    specs = specs + [((n, {"order": o}), s) for n, s in specs for o in ("sources-first", "adds-late")]
    return e2prop.run(PROP, tier, tags=["C06"], specs=specs, opts={"fail_combos": "few"})


def run(tier):
    r2 = store_failures(tier)
    extra = {"e2_" + k: v for k, v in r2["coverage"].items() if k in ("states", "transitions", "real_uberjob_run_calls", "plans", "events_by_kind")}
    return e1prop.run(PROP, explorations(tier), extra_cov=extra, extra_viol=r2["violations"])


def replay(rep):
    if rep.get("engine") == "E2":
        from .. import e2prop
        return e2prop.replay(PROP, rep, tags=["C06"])
    return e1prop.replay(PROP, rep)
