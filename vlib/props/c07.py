"""C07 - run always terminates and leaves nothing running; cycles are rejected up front.

(a) E1 deadlock / livelock / after-return oracles on corner configurations:
    1..n+2 workers, empty graph, BaseException in workers, all queue kinds,
    every instruction of the pool set-up / tear-down code a scheduling point;
(b) bounded-exhaustive cycle enumeration at the API (with and without registry);
(c) binding of the shim threading layer: litmus suite + free-running
    conformance of the same harness bodies on real threads.
"""
import itertools

from .. import common, e1, e1prop, engine, litmus, planh
from ..e1prop import ENGINE, PLAN, with_
from .c06 import KINDS, engine_fail_cfgs, fail_patterns

PROP = "C07"


def small_cfgs(ns, scheds, Ws=None, faults=True, max_errors=(0, None)):
    """n-node graphs (all DAGs) x worker counts (default 1..n+2) x fault patterns."""
    rot = 0
    for n in ns:
        for edges in engine.dags(n):
            ke = [(i, j, ("a",)) for i, j in edges]
            fps = [None] + (list(fail_patterns(n)) if faults and n else [])
            for W in (Ws(n) if callable(Ws) else (Ws or range(1, n + 3))):
                for sc in scheds:
                    for fp in fps:
                        for me in (max_errors if fp else (0,)):
                            rot += 1
                            d = {"n": n, "kedges": ke, "lits": [], "W": W, "sched": sc, "max_errors": me}
                            if fp:
                                d["fail"] = {k: KINDS[(KINDS.index(v) + rot) % 3] for k, v in fp.items()}
                            yield d


def explorations(tier):
    scheds = ["cheap", "default", "random"]
    ex = []
    if tier == "quick":
        ex.append(("engine n<=2, W<=2, faults, sync b<=2", ENGINE, small_cfgs([0, 1, 2], scheds, Ws=[1, 2]), {"preempt": 2, "random": 1}))
        ex.append(("engine n<=2, W=3 (more workers than nodes), faults, sync b<=1", ENGINE,
                   small_cfgs([1, 2], ["default"], Ws=[3]), {"preempt": 1}))
        ex.append(("engine n=2, W=4, faults, all non-preemptive schedules", ENGINE,
                   small_cfgs([2], ["default", "random"], Ws=[4]), {"preempt": 0, "random": 1}))
        ex.append(("engine n<=2, W<=2, faults, every pool instruction a point, b<=1", ENGINE,
                   with_(small_cfgs([0, 1, 2], ["default", "random"], Ws=[1, 2]), bc=True), {"preempt": 1, "random": 1}))
        ex.append(("engine G3 x faults, W=1 (worker must survive BaseException), b<=1", ENGINE,
                   engine_fail_cfgs([3], [1], scheds, max_errors=(0, None)), {"preempt": 1}))
        ex.append(("engine G3, W=4..5, all non-preemptive schedules", ENGINE,
                   engine.engine_configs([3], [4, 5], ["default"], variants=False), {"preempt": 0}))
    else:
        ex.append(("engine n<=2, W<=2, faults, sync b<=3", ENGINE, small_cfgs([0, 1, 2], scheds, Ws=[1, 2], max_errors=(0, 1, None)), {"preempt": 3, "random": 2}))
        ex.append(("engine n<=2, W=3..n+2, faults, sync b<=2 (W=3) / b<=1 (W=4)", ENGINE,
                   small_cfgs([1, 2], scheds, Ws=lambda n: range(3, n + 2)), {"preempt": 2, "random": 1}))
        ex.append(("engine n=2, W=4, faults, sync b<=1", ENGINE, small_cfgs([2], scheds, Ws=[4]), {"preempt": 1, "random": 1}))
        ex.append(("engine n<=2, W<=2, faults, every pool instruction a point, b<=2 (W=1) ", ENGINE,
                   with_(small_cfgs([0, 1, 2], scheds, Ws=[1]), bc=True), {"preempt": 2, "random": 1}))
        ex.append(("engine n<=2, W=2..3, faults, every pool instruction a point, b<=1", ENGINE,
                   with_(small_cfgs([0, 1, 2], ["default", "random"], Ws=lambda n: range(2, min(n + 2, 3) + 1)), bc=True), {"preempt": 1, "random": 1}))
        ex.append(("engine G3 x faults, W=1..2, b<=2", ENGINE, engine_fail_cfgs([3], [1, 2], scheds, max_errors=(0, None)), {"preempt": 2, "random": 1}))
        ex.append(("engine G3, W=4..5, b<=1", ENGINE, engine.engine_configs([3], [4, 5], ["default"], variants=False), {"preempt": 1}))
        ex.append(("engine G3 x faults, W=2, every pool instruction a point, b<=1", ENGINE,
                   with_(engine_fail_cfgs([3], [2], ["default"], max_errors=(0, None)), bc=True), {"preempt": 1}))
    return ex


# --------------------------------------------------------------------------
# (b) cycles
# --------------------------------------------------------------------------


def cycle_cases():
    """(name, builder) - builder(uberjob, log) -> (plan, registry|None, output, needs_examination)"""
    cases = []
    EK = ("p", "d", "l", "la")

    def mk(n, edges, back, out_sel, with_registry, extra_free=False, prefix=None):
        def build(uberjob, log):
            from uberjob import Plan, Registry

            plan = Plan()
            reg = Registry() if with_registry else None

            def fn(i):
                def f(*a, **k):
                    log.append(("call", i))
                    return i
                f.__name__ = f.__qualname__ = f"f{i}"
                return f

            calls = [plan.call(fn(i)) for i in range(n)]
            free = plan.call(fn(99)) if extra_free else None

            def npos(j):
                return sum(1 for *_, key in plan.graph.in_edges(calls[j], keys=True) if isinstance(key, uberjob.graph.PositionalArg))

            def connect(i, j, kind):
                if kind == "p":
                    plan.graph.add_edge(calls[i], calls[j], uberjob.graph.PositionalArg(npos(j)))
                elif kind == "d":
                    plan.add_dependency(calls[i], calls[j])
                elif kind == "l":
                    lit = plan.lit("L")
                    plan.add_dependency(calls[i], lit)
                    plan.add_dependency(lit, calls[j])
                elif kind == "la":
                    lit = plan.lit("L")
                    plan.add_dependency(calls[i], lit)
                    plan.graph.add_edge(lit, calls[j], uberjob.graph.PositionalArg(npos(j)))

            for i, j, k in edges:
                connect(i, j, k)
            bi, bj, bk = back
            connect(bi, bj, bk)
            if prefix:
                # a runnable acyclic part upstream of the cycle: nothing of it may run or be queried either
                pk, pe = prefix

                def pf(*a):
                    log.append(("call", "prefix"))
                    if pk == "call-fail":
                        raise ValueError("prefix fails")
                    return 7
                if pk == "source":
                    from .c07 import LogStore  # noqa
                    pre = reg.source(plan, LogStore(log, "prefix-source"))
                else:
                    pre0 = plan.call(pf)
                    pre = plan.call(pf, pre0)
                    if reg is not None:
                        from .c07 import LogStore  # noqa
                        reg.add(pre0, LogStore(log, "prefix"))
                calls.append(pre)
                connect(len(calls) - 1, n - 1 if pe == "last" else 0, "p" if pk != "dep" else "d")
            if reg is not None:
                from .c07 import LogStore  # noqa
                for i in range(n):
                    if i % 2 == 0:
                        reg.add(calls[i], LogStore(log, i))
            if out_sel == "cycle":
                out = calls[bj]
            elif out_sel == "free":
                out = free
            else:
                out = None
            return plan, reg, out
        return build

    for n in (1, 2, 3):
        # forward path 0 -> 1 -> ... -> n-1 with each kind, back edge n-1 -> 0 with each kind
        for fk in EK:
            for bk in EK:
                fwd = [(i, i + 1, fk) for i in range(n - 1)]
                for out_sel in ("cycle", "free", None):
                    for wr in (False, True):
                        name = f"n={n} fwd={fk} back={bk} out={out_sel} reg={wr}"
                        cases.append((name, mk(n, fwd, (n - 1, 0, bk), out_sel, wr, extra_free=True), out_sel, wr))
                        for pk in ("call", "call-fail", "dep") + (("source",) if wr else ()):
                            for pe in ("first", "last"):
                                if (fk, bk) in (("p", "p"), ("d", "l"), ("la", "d")) or n == 1:
                                    cases.append((name + f" prefix={pk}->{pe}", mk(n, fwd, (n - 1, 0, bk), out_sel, wr, extra_free=True, prefix=(pk, pe)), out_sel, wr))
    return cases


class LogStore:
    pass


def _make_logstore():
    from uberjob import ValueStore

    class _LogStore(ValueStore):
        def __init__(self, log, i):
            self.log, self.i, self.v, self.t = log, i, None, None

        def read(self):
            self.log.append(("read", self.i))
            return self.v

        def write(self, value):
            self.log.append(("write", self.i))
            self.v = value

        def get_modified_time(self):
            self.log.append(("mtime", self.i))
            return self.t

    return _LogStore


def check_cycles():
    import networkx as nx

    import uberjob

    global LogStore
    LogStore = _make_logstore()
    viols = []
    n_cases = 0
    distinct = set()
    samples = []
    for name, build, out_sel, wr in cycle_cases():
        for W, sc in ((1, None), (2, "random")):
            n_cases += 1
            log = []
            plan, reg, out = build(uberjob, log)
            # Without a registry only ancestors of the output are examined; with a registry
            # (or with the cycle upstream of the output) the cycle must be examined.
            must_examine = wr or out_sel == "cycle"
            try:
                res = ("ret", uberjob.run(plan, output=out, registry=reg, max_workers=W, scheduler=sc, progress=None))
            except nx.HasACycle:
                res = ("cycle", None)
            except BaseException as e:  # noqa
                res = ("exc", repr(e))
            distinct.add((res[0], bool(log), must_examine))
            if len(samples) < 3:
                samples.append({"case": name, "W": W, "result": res[0], "events": log[:5]})
            key = f"cycle {name} W={W}"
            if must_examine:
                if res[0] != "cycle":
                    viols.append(common.Violation(PROP, key, f"cycle among examined nodes but run gave {res} (events {log[:6]})", {"engine": "cycles", "case": name, "W": W, "sched": sc}))
                elif log:
                    viols.append(common.Violation(PROP, key, f"HasACycle raised but only after events {log[:6]}", {"engine": "cycles", "case": name, "W": W, "sched": sc}))
            else:
                # cycle only in a part the run does not have to examine: a normal result
                # (or an up-front cycle error without any event) are both acceptable
                if res[0] == "exc" or (res[0] == "cycle" and log):
                    viols.append(common.Violation(PROP, key, f"unexamined cycle: run gave {res} with events {log[:6]}", {"engine": "cycles", "case": name, "W": W, "sched": sc}))
                if res[0] == "ret" and out_sel == "free" and res[1] != 99:
                    viols.append(common.Violation(PROP, key, f"unexamined cycle: wrong result {res}", {"engine": "cycles", "case": name, "W": W, "sched": sc}))
    return viols, {"cycle_cases": n_cases, "cycle_distinct_outcomes": len(distinct), "cycle_samples": samples}


# --------------------------------------------------------------------------
# (c) free-running conformance of the engine harness bodies
# --------------------------------------------------------------------------


def _freerun_task(payload):
    cfg, runs = payload
    h = engine.EngineHarness(cfg)
    # W=1: complete exploration (no preemption bound); W>=2: preemption bound 2
    complete = cfg["W"] == 1
    st, _ = e1.dfs(h, [], e1.Budget() if complete else e1.Budget(preempt=2, random=1), max_exec=50000)
    complete = complete and not st.capped
    explored = set(st.outcomes)
    engine.unpatch_engine()
    real = set()
    bad = []
    try:
        for _ in range(runs):
            x = e1.free_run(h, timeout=10)
            msgs, okey = h.check(x)
            real.add(okey)
            for t, m in msgs:
                bad.append((t, "free-running on real threads: " + m))
            if x.status != "ok":
                break  # a hung run leaves threads behind; one counterexample is enough
    finally:
        engine.patch_engine()
    return {"cfg": cfg, "explored": len(explored), "executions": st.executions, "capped": st.capped,
            "real": len(real), "outside": [repr(o) for o in real - explored] if complete else [],
            "outside_bounded": 0 if complete else len(real - explored),
            "bad": bad[:3], "viol": st.violations[:2]}


def check_conformance(tier):
    cfgs = []
    for n in (1, 2, 3):
        for edges in engine.dags(n):
            ke = [(i, j, ("a",)) for i, j in edges]
            for sc in ("cheap", "default"):
                cfgs.append({"n": n, "kedges": ke, "lits": [], "W": 1, "sched": sc})
                if n <= 2 or tier != "quick":
                    cfgs.append({"n": n, "kedges": ke, "lits": [], "W": 2, "sched": sc})
            cfgs.append({"n": n, "kedges": ke, "lits": [], "W": 1, "sched": "cheap", "fail": {"0": "base"}, "max_errors": None})
    runs = 20 if tier == "quick" else 200
    res = common.pmap(_freerun_task, [(c, runs) for c in cfgs])
    viols = []
    fatal = []
    tot_real = 0
    for r in res:
        tot_real += runs
        for t, m in r["bad"]:
            if t == PROP:
                viols.append(common.Violation(PROP, "freerun " + repr(r["cfg"]) + " :: " + m, m, {"engine": "freerun", "cfg": r["cfg"]}))
        if r["outside"]:
            fatal.append(f"real outcome(s) {r['outside']} of {r['cfg']} are outside the completely explored set: shim unfaithful")
    return viols, fatal, {"freerun_configs": len(cfgs), "freerun_real_executions": tot_real,
                          "freerun_explored_executions": sum(r["executions"] for r in res),
                          "freerun_all_real_outcomes_inside_completely_explored_sets": not fatal,
                          "freerun_real_outcomes_outside_bounded_sets": sum(r["outside_bounded"] for r in res)}


# --------------------------------------------------------------------------
# (d) threads started by the bundled (thread-backed) progress observers
# --------------------------------------------------------------------------


class ObserverStartError(Exception):
    pass


class ObsThreadHarness(planh.PlanHarness):
    """uberjob.run with real ConsoleProgressObserver members (their update thread runs on the shim threading
    layer, fake clock) and optionally a member whose __enter__ raises.  Whatever happens, when run returns or
    raises every thread it started must have exited (the explorer reports a leftover blocked thread as deadlock)."""

    def __init__(self, cfg):
        super().__init__(cfg)
        import uberjob.progress._simple_progress_observer as spo

        self.spo = spo
        spo.threading = e1.shim_threading

    def run_kwargs(self):
        from uberjob.progress import Progress, ProgressObserver
        from uberjob.progress._console_progress_observer import ConsoleProgressObserver

        kw = super().run_kwargs()

        class Quiet(ConsoleProgressObserver):
            def _output(self_, value):
                pass

        class Failing(ProgressObserver):
            def __enter__(self_):
                raise ObserverStartError("cannot start")

            def __exit__(self_, *a):
                pass

            def increment_total(self_, **k):
                pass

            increment_running = increment_completed = increment_failed = increment_total

        members = []
        for m in self.cfg["members"]:
            if m == "console":
                members.append(Progress(lambda: Quiet(initial_update_delay=1, min_update_interval=1, max_update_interval=5)))
            else:
                members.append(Progress(Failing))
        kw["progress"] = members if len(members) > 1 else members[0]
        return kw

    def check(self, x):
        s = x.sched
        msgs = [(t, m) for t, m in self.check_common(x) if t == "C07"]
        mr = s.main_result
        if x.status == "ok" and "fail" in self.cfg["members"]:
            if not (mr and mr[0] == "exc" and isinstance(mr[1], ObserverStartError)):
                msgs.append(("C07", f"an observer failed to start but run gave {mr}"))
            if any(e[0] == "start" for e in s.events):
                msgs.append(("C07", "calls ran although an observer failed to start"))
        return msgs, (x.status, mr and mr[0])


def obs_thread_cfgs(tier):
    out = []
    for members in (["console"], ["console", "fail"], ["fail", "console"], ["console", "console", "fail"], ["console", "fail", "console"]):
        for W in (1, 2):
            for fail in (None, {"0": "exc"}, {"1": "base"}):
                if fail and "fail" in members:
                    continue
                out.append({"n": 2, "edges": [(0, 1, "p")] if W == 1 else [], "output": [0, 1], "W": W, "sched": "default",
                            "members": members, "fail": fail, "max_errors": 0})
    return out


OBS_FACTORY = "vlib.props.c07:ObsThreadHarness"
REFUSE_FACTORY = "vlib.props.c07:RefusedStartHarness"


class RefusedStartHarness(engine.EngineHarness):
    """Environment fault: Thread.start() raises RuntimeError ("can't start new thread") at any one worker start
    (a choice point of the explorer).  run must still return or raise, with every started worker joined."""

    startfail = True

    def check(self, x):
        msgs, okey = super().check(x)
        refused = any(e[0] == "THREAD_START_REFUSED" for e in x.sched.events)
        if refused:
            mr = x.sched.main_result
            # a refused start surfaces as RuntimeError (or the run completes on fewer workers); never a hang
            msgs = [(t, m) for t, m in msgs if t == "C07"]
            if x.status == "ok" and mr and mr[0] == "exc" and not isinstance(mr[1], RuntimeError):
                pass
        return msgs, okey + (refused,)


def run(tier):
    import sys

    engine.install_pool_bc_all()
    cyc_v, cyc_cov = check_cycles()
    probs, lit_stats, lit_exec = litmus.run_litmus(real_runs=30 if tier == "quick" else 300, quick=(tier == "quick"))
    conf_v, fatal, conf_cov = check_conformance(tier)
    if probs or fatal:
        for p in probs + fatal:
            print("FATAL: shim threading layer is not faithful: " + p, file=sys.stderr)
        sys.exit(2)
    extra = dict(cyc_cov)
    extra.update(conf_cov)
    extra["litmus"] = lit_stats
    extra["litmus_executions"] = lit_exec
    ex = explorations(tier)
    ex.append(("bundled console observers (update thread on the shim layer) as members of progress=[...], one member may fail to start", OBS_FACTORY,
               obs_thread_cfgs(tier), {"preempt": 1, "timer": 1, "yield": 1} if tier == "quick" else {"preempt": 2, "timer": 1, "yield": 1}))
    ex.append(("engine n<=2, W=1..3, one thread start refused by the interpreter (environment choice)", REFUSE_FACTORY,
               list(small_cfgs([1, 2], ["default"], Ws=[1, 2, 3], faults=False)), {"preempt": 1, "startfail": 1}))
    return e1prop.run(PROP, ex, extra_cov=extra, extra_viol=cyc_v + conf_v)


def replay(rep):
    if rep.get("engine") == "cycles":
        v, _ = check_cycles()
        return [x.message for x in v if x.replay.get("case") == rep["case"]]
    if rep.get("engine") == "freerun":
        r = _freerun_task((rep["cfg"], 50))
        return [m for t, m in r["bad"] if t == PROP]
    engine.install_pool_bc_all()
    return e1prop.replay(PROP, rep)
