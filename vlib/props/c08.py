"""C08 - a run cut short at any point leaves stores the next run repairs correctly.

E2: FAILRUN at every operation index (exception / death) from every reachable state.
"""
from .. import e2prop

KW = dict(tags=["C08"], norm=False)
PROP = "C08"


def run(tier):
    return e2prop.run(PROP, tier, **KW)


def replay(rep):
    return e2prop.replay(PROP, rep, tags=KW.get("tags"))


# --------------------------------------------------------------------------
# file-backed half: process death at every file operation of a run (E4 inside a run)
# --------------------------------------------------------------------------
import json as _json
import os as _os
import shutil as _shutil
import tempfile as _tempfile

from .. import common as _common, e2 as _e2, e4 as _e4

FILE_PLANS = {
    "chain": [{"kind": "S"}, {"kind": "C", "args": [0]}, {"kind": "C", "args": [1]}],
    "chain-unstored-mid": [{"kind": "S"}, {"kind": "C", "args": [0]}, {"kind": "U", "args": [1]}, {"kind": "C", "args": [2]}],
    "diamond": [{"kind": "S"}, {"kind": "C", "args": [0]}, {"kind": "C", "args": [0]}, {"kind": "C", "args": [1, 2]}],
    "plain-dep": [{"kind": "S"}, {"kind": "C", "args": [0]}, {"kind": "C", "deps": [1]}],
}


def _jscratch(spec, ver):
    vals = {}
    for i, nd in enumerate(spec):
        if nd["kind"] == "S":
            vals[i] = {"src": i, "ver": ver}
        else:
            vals[i] = {"f": i, "args": [vals[a] for a in nd.get("args", ())]}
    return vals


class FileWorld:
    def __init__(self, spec, d):
        import uberjob
        from uberjob.stores import JsonFileStore

        self.uberjob, self.spec, self.d = uberjob, spec, d
        plan, reg = uberjob.Plan(), uberjob.Registry()
        nodes = []
        self.paths = {}
        for i, nd in enumerate(spec):
            path = _os.path.join(d, f"n{i}.json")
            if nd["kind"] == "S":
                node = reg.source(plan, JsonFileStore(path))
                self.paths[i] = path
            else:
                def f(*args, _i=i):
                    return {"f": _i, "args": list(args)}
                f.__name__ = f.__qualname__ = f"f{i}"
                node = plan.call(f, *[nodes[a] for a in nd.get("args", ())])
                if nd["kind"] == "C":
                    reg.add(node, JsonFileStore(path))
                    self.paths[i] = path
            for dep in nd.get("deps", ()):
                plan.add_dependency(nodes[dep], node)
            nodes.append(node)
        self.plan, self.reg, self.nodes = plan, reg, nodes

    def next_time(self):
        """strictly increasing logical mtimes, 0.05 s apart (in nanoseconds): many writes fall into one whole second"""
        ts = [_os.stat(p).st_mtime_ns for p in self.paths.values() if _os.path.exists(p)]
        return max(ts + [1_000_000_000 * 10**9]) + 50_000_000

    def write_source(self, i, ver):
        p = self.paths[i]
        t = self.next_time()
        with _e4._real_open(p, "w") as fh:
            _json.dump({"src": i, "ver": ver}, fh)
        _os.utime(p, ns=(t, t))

    def snapshot(self):
        """{i: None | (mtime, value | '<corrupt>')} straight from the files."""
        snap = {}
        for i, p in self.paths.items():
            if not _os.path.exists(p):
                snap[i] = None
                continue
            try:
                with _e4._real_open(p) as fh:
                    v = _json.load(fh)
            except ValueError:
                v = "<corrupt>"
            snap[i] = (_os.stat(p).st_mtime_ns, v)
        return snap

    def run(self, rec=None):
        """uberjob.run with every staged file stamped with a strictly increasing logical mtime at its rename."""
        world = self

        class Rec(_e4.Recorder):
            def step(self_, kind, detail, do):
                if kind in ("replace", "rename"):
                    def do2():
                        src = _os.path.join(world.d, detail[0])
                        t = world.next_time()
                        _os.utime(src, ns=(t, t))
                        return do()
                    return super().step(kind, detail, do2)
                return super().step(kind, detail, do)

        r = Rec(self.d, fault=rec)
        with _e4.Intercept(r):
            out = self.uberjob.run(self.plan, registry=self.reg, output=self.nodes[-1], max_workers=1, progress=None)
        return out, r


def _file_case(payload):
    name, spec, prehistory = payload
    root = _tempfile.mkdtemp(prefix="c08f_")
    viols = []
    evals = 0
    nontrivial = set()
    anc = _e2.ancestors(spec)
    try:
        def prepare(tag):
            d = _os.path.join(root, tag)
            _os.makedirs(d)
            w = FileWorld(spec, d)
            for i, nd in enumerate(spec):
                if nd["kind"] == "S":
                    w.write_source(i, 0)
            ver = 0
            if prehistory == "after-update":
                w.run()
                ver = 1
                for i, nd in enumerate(spec):
                    if nd["kind"] == "S":
                        w.write_source(i, 1)
            return w, ver

        w, ver = prepare("ref")
        _, rec = w.run()
        ops = list(rec.ops)
        ref = _jscratch(spec, ver)
        snap = w.snapshot()
        for i, p in w.paths.items():
            if snap[i] is None or snap[i][1] != ref[i]:
                viols.append(("ref", f"{name}/{prehistory}: after a complete run store {i} holds {snap[i]}, expected {ref[i]}"))
        evals += 1
        for k in range(len(ops)):
            for mode in ("die-before", "die-after"):
                w, ver = prepare(f"k{k}{mode}")
                pre = w.snapshot()
                pid = _os.fork()
                if pid == 0:
                    try:
                        w.run(rec=(k, mode))
                        _os._exit(0)
                    except BaseException:  # noqa
                        _os._exit(3)
                    finally:
                        _os._exit(4)
                _, status = _os.waitpid(pid, 0)
                code = _os.waitstatus_to_exitcode(status)
                evals += 1
                if code != 77:
                    viols.append(("harness", f"{name}/{prehistory}: child did not die at op {k} ({ops[k]}) but exited {code}"))
                    continue
                post = w.snapshot()
                where = f"{name}/{prehistory}: death {mode} file operation {k} {ops[k]}"
                nontrivial.add((name, prehistory, ops[k][0], mode, tuple(sorted(i for i in post if post[i] != pre[i]))))
                # invariant: everything the stale rule would treat as up to date equals its from-scratch value
                ood = _e2.out_of_date(spec, post, None, anc)
                for i in w.paths:
                    if spec[i]["kind"] != "C" or post[i] is None or i in ood:
                        continue
                    if post[i][1] != ref[i]:
                        viols.append((f"invariant {ops[k][0]}/{mode}", f"{where}: store {i} looks up to date but holds {str(post[i][1])[:80]}, from-scratch value is {ref[i]}"))
                # follow-up run (fresh plan objects, same files)
                w2 = FileWorld(spec, w.d)
                try:
                    out, _ = w2.run()
                except BaseException as e:  # noqa
                    viols.append((f"followup {ops[k][0]}/{mode}", f"{where}: the next run raised {e!r}"))
                    continue
                fin = w2.snapshot()
                if out != ref[len(spec) - 1]:
                    viols.append((f"followup-output {ops[k][0]}/{mode}", f"{where}: the next run returned {str(out)[:80]}, from scratch gives {ref[len(spec) - 1]}"))
                for i in w.paths:
                    if fin[i] is None or fin[i][1] != ref[i]:
                        viols.append((f"followup-store {ops[k][0]}/{mode}", f"{where}: after the next run store {i} holds {str(fin[i])[:80]}, from scratch gives {ref[i]}"))
                    elif spec[i]["kind"] == "C" and post[i] is not None and i not in ood and fin[i][0] != post[i][0]:
                        viols.append((f"followup-rewrite {ops[k][0]}/{mode}", f"{where}: store {i} was complete and up to date after the cut but the next run rewrote it"))
                left = [f for f in _os.listdir(w.d) if not (f.startswith("n") and f.endswith(".json"))]
                if left:
                    viols.append((f"followup-litter {ops[k][0]}/{mode}", f"{where}: after the next run the directory still holds {left}"))
                _shutil.rmtree(w.d, ignore_errors=True)
        return {"evals": evals, "viols": viols, "nontrivial": len(nontrivial), "ops": [list(map(str, o)) for o in ops]}
    finally:
        _shutil.rmtree(root, ignore_errors=True)


def file_part():
    payloads = [(n, s, h) for n, s in FILE_PLANS.items() for h in ("from-empty", "after-update")]
    res = _common.pmap(_file_case, payloads)
    viols = []
    for (n, s, h), r in zip(payloads, res):
        for key, msg in r["viols"]:
            viols.append(_common.Violation(PROP, f"file {n} {key}", msg, {"engine": "E4-run", "plan": n, "prehistory": h}))
    cov = {"file_backed_cases": sum(r["evals"] for r in res),
           "file_backed_distinct_cut_states": sum(r["nontrivial"] for r in res),
           "file_backed_sample": {"plan": payloads[0][0], "file_operations_of_one_run": res[0]["ops"][:12]}}
    return viols, cov


_e2_run = run


def run(tier):  # noqa: F811
    res = _e2_run(tier)
    v, cov = file_part()
    res["violations"] += v
    res["coverage"].update(cov)
    res["coverage"]["rule"] += ("; file-backed half: plans over real JsonFileStores, a forked child runs uberjob.run and dies (os._exit) before/after EVERY file operation "
                                "(open/write/close/replace, staging files stamped with a logical mtime at their rename), the parent checks the invariant on the files and performs the follow-up run")
    return res


_e2_replay = replay


def replay(rep):  # noqa: F811
    if rep.get("engine") == "E4-run":
        r = _file_case((rep["plan"], FILE_PLANS[rep["plan"]], rep["prehistory"]))
        for k, m in r["viols"]:
            print("ORACLE:", k, m)
        return [m for k, m in r["viols"]]
    return _e2_replay(rep)
