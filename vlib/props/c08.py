"""C08 - a run cut short at any point leaves stores the next run repairs correctly.

E2: FAILRUN at every operation index (exception / death) from every reachable state.
"""
from .. import e2prop

KW = dict(tags=["C08"], norm=False)
PROP = "C08"


def run(tier):
    return e2prop.run(PROP, tier, **KW)


def replay(rep):
    return e2prop.replay(PROP, rep, tags=KW.get("tags"))
