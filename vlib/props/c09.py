"""C09 - rebuilt stored values are written, then read back, before downstream use.

E2 with normalising stores (read returns ("R", v)).
"""
from .. import e2prop

KW = dict(tags=["C09"], norm=True)
PROP = "C09"


def run(tier):
    return e2prop.run(PROP, tier, **KW)


def replay(rep):
    return e2prop.replay(PROP, rep, tags=KW.get("tags"))
