"""C10 - run limits are honoured: max_workers, max_errors and retry.

(a) E1: in-flight counters in call functions, store operations and modified-time queries; over every
    schedule within the bound the number in flight never exceeds max_workers (stale_check_max_workers
    for modified-time queries);
(b) E1: w independent ready calls block on a harness barrier until w of them are in flight: with
    max_workers = w every schedule must complete (a serialising engine deadlocks), with w-1 every
    schedule must deadlock in the barrier (sanity of the harness);
(c) E1: fault patterns x max_errors in {None,0,1,2}: failed calls <= k + W; with one worker exactly
    min(k+1, failing calls without failed dependency); None => every call without failed dependency ran;
(d) E3 (sequential): operation kind x "fails on the first j attempts" x retry n and custom decorators.
"""
import itertools

from .. import common, e1, e1prop, engine, planh

PROP = "C10"
FACTORY = "vlib.props.c10:LimitHarness"


class LimitHarness(planh.PlanHarness):
    """cfg extras: stored [i..] (missing stores), SW stale_check_max_workers, barrier w (first w calls rendezvous)"""

    def __init__(self, cfg):
        cfg = dict(cfg)
        super().__init__(cfg)
        import uberjob

        self.registry = None
        self.stored = list(cfg.get("stored") or [])
        if self.stored:
            harness = self

            class St(uberjob.ValueStore):
                def __init__(self, i):
                    self.i = i

                def _op(self, kind):
                    s = e1.sched()
                    ctx = s.ctx
                    key = "mt" if kind == "mtime" else "ops"
                    ctx[key] += 1
                    ctx["max_" + key] = max(ctx["max_" + key], ctx[key])
                    try:
                        e1.hpoint((kind, self.i))
                    finally:
                        ctx[key] -= 1

                def read(self):
                    self._op("read")
                    return harness.state.get(self.i)

                def write(self, v):
                    self._op("write")
                    harness.state[self.i] = v

                def get_modified_time(self):
                    self._op("mtime")
                    return None

            self.registry = uberjob.Registry()
            for i in self.stored:
                self.registry.add(self.calls[i], St(i))

    def _make_fn(self, i):
        fail = self.fail
        cfg = self.cfg

        def f(*args, **kwargs):
            s = e1.sched()
            ctx = s.ctx
            s.log("start", i)
            ctx["ops"] += 1
            ctx["max_ops"] = max(ctx["max_ops"], ctx["ops"])
            try:
                e1.hpoint(("call", i))
                w = cfg.get("barrier")
                if w and i in (cfg.get("barrier_calls") or range(w)):
                    ctx["arrived"] += 1
                    s.point(("barrier", i), pred=lambda: ctx["arrived"] >= w)
                if i in fail:
                    ex = engine.make_exc(fail[i], f"c{i}")
                    ctx["raised"][i] = ex
                    s.log("raise", i)
                    raise ex
            finally:
                ctx["ops"] -= 1
            s.log("end", i)
            return planh.Val(i, (), ())

        f.__name__ = f.__qualname__ = f"f{i}"
        return f

    def setup(self, s):
        ctx = super().setup(s)
        ctx.update(ops=0, max_ops=0, mt=0, max_mt=0, arrived=0)
        self.state = {}
        return ctx

    def run_kwargs(self):
        kw = super().run_kwargs()
        if self.registry is not None:
            kw["registry"] = self.registry
        if self.cfg.get("SW") is not None:
            kw["stale_check_max_workers"] = self.cfg["SW"]
        return kw

    def check(self, x):
        s = x.sched
        ctx = x.ctx
        cfg = self.cfg
        msgs = []
        W = cfg["W"]
        order = tuple(e[1] for e in s.events if e[0] == "start")
        okey = (x.status, order)
        w = cfg.get("barrier")
        if w:
            if W >= w:
                if x.status != "ok":
                    msgs.append(("C10", f"{w} independent calls were ready and max_workers={W}, but they never ran in parallel ({x.status}: {s.deadlock_info})"))
            else:
                if x.status == "ok":
                    msgs.append(("C10", f"harness sanity: a {w}-call rendezvous completed with only {W} workers - more than max_workers calls were in flight"))
                return msgs, okey
        elif x.status != "ok":
            msgs.append(("C07", f"{x.status}: {s.deadlock_info}"))
            if self.fail and cfg.get("max_errors", 0) is None:
                runnable = {i for i in range(self.n) if not any(a in self.fail for a in self.anc[i])}
                msgs.append(("C10", f"max_errors=None: the run never finished ({x.status}) and calls {sorted(runnable - set(order))} without failed dependency were not executed"))
            return msgs, okey
        if ctx["max_ops"] > W:
            msgs.append(("C10", f"{ctx['max_ops']} calls / store operations were in flight at once with max_workers={W}"))
        sw = cfg.get("SW") or W
        if ctx["max_mt"] > sw:
            msgs.append(("C10", f"{ctx['max_mt']} modified-time queries were in flight at once with stale_check_max_workers={sw}"))
        if self.fail and x.status == "ok":
            k = cfg.get("max_errors", 0)
            raised = [e[1] for e in s.events if e[0] == "raise"]
            started = set(order)
            f0 = [i for i in self.fail if not any(a in self.fail for a in self.anc[i])]
            if k is not None:
                if len(raised) > k + W:
                    msgs.append(("C10", f"{len(raised)} calls failed with max_errors={k} and {W} worker(s) (limit {k + W})"))
                if W == 1 and len(raised) != min(k + 1, len(f0)):
                    msgs.append(("C10", f"single worker, max_errors={k}: {len(raised)} calls failed, expected exactly min(k+1, {len(f0)} failing calls without failed dependency)"))
            else:
                runnable = {i for i in range(self.n) if not any(a in self.fail for a in self.anc[i])}
                if started != runnable:
                    msgs.append(("C10", f"max_errors=None: calls {sorted(runnable - started)} have no failed dependency but were not executed (extra: {sorted(started - runnable)})"))
        return msgs, okey


def cfgs_inflight(tier):
    out = []
    for n, edges in ((3, []), (3, [(0, 2, "p"), (1, 2, "p")]), (4, [(0, 1, "p"), (0, 2, "p"), (0, 3, "p")])):
        for W in (1, 2) + ((3,) if tier != "quick" else ()):
            for stored, SW in ((None, None), ([0, n - 1], None), (list(range(n)), 1), (list(range(n)), 2)):
                if SW is not None and SW >= W and tier == "quick" and SW != W:
                    pass
                out.append({"n": n, "edges": edges, "output": list(range(n)), "W": W, "sched": "default" if len(out) % 2 else "random", "stored": stored, "SW": SW})
    return out


def cfgs_barrier(tier):
    out = []
    # rendezvous among calls that only become ready later: one root fanning out, a chain then a fan-out, two roots joining into a fan-out
    for w in (2, 3):
        shapes = [(1 + w, [(0, j, "p") for j in range(1, 1 + w)], list(range(1, 1 + w))),
                  (2 + w, [(0, 1, "p")] + [(1, j, "d") for j in range(2, 2 + w)], list(range(2, 2 + w))),
                  (2 + w, [(i, j, "p") for i in (0, 1) for j in range(2, 2 + w)], list(range(2, 2 + w)))]
        for n, edges, calls in shapes:
            for W in (w - 1, w, w + 1):
                for sc in ("default", "random"):
                    out.append({"n": n, "edges": edges, "output": list(range(n)), "W": W, "sched": sc, "barrier": w, "barrier_calls": calls})
    # the pool keeps its size after failures of every kind: one call fails (tolerated), then w calls must still meet
    for w in (2, 3):
        for W in (w,):
            for kind in ("exc", "base", "sysexit"):
                for sc in ("default", "random"):
                    out.append({"n": w + 1, "edges": [], "output": list(range(w + 1)), "W": W, "sched": sc, "barrier": w, "barrier_calls": list(range(1, w + 1)),
                                "fail": {"0": kind}, "max_errors": None})
    for w in (2, 3):
        for W in (w - 1, w, w + 1):
            for extra in (0, 1):
                n = w + extra
                edges = [(i, n - 1, "p") for i in range(w)] if extra else []
                for sc in ("default", "random"):
                    out.append({"n": n, "edges": edges, "output": list(range(n)), "W": W, "sched": sc, "barrier": w})
    return out


def cfgs_errors(tier):
    out = []
    graphs = [(3, []), (3, [(0, 1, "p")]), (3, [(0, 2, "p"), (1, 2, "d")]), (4, [(0, 1, "p"), (2, 3, "p")]), (4, [(0, 3, "p"), (1, 3, "p"), (2, 3, "p")]),
              # one independent call + a call whose completion makes three more ready (work that appears after the limit was hit)
              (5, [(1, 2, "p"), (1, 3, "p"), (1, 4, "d")])]
    for n, edges in graphs:
        for r in range(1, n + 1):
            for fs in itertools.combinations(range(n), r):
                for k in (None, 0, 1, 2):
                    for W in (1, 2):
                        late_work = n == 5
                        if W == 2 and tier == "quick" and (r > 2 or k == 2) and not (late_work and 1 not in fs and r >= 3 and k in (0, 1)):
                            continue
                        if late_work and tier == "quick" and W == 1 and r > 2:
                            continue
                        kinds = ["exc", "base", "sysexit"]
                        out.append({"n": n, "edges": edges, "output": list(range(n)), "W": W, "sched": "default" if (len(out) % 3) else "random",
                                    "fail": {str(i): kinds[(i + len(out)) % 3] for i in fs}, "max_errors": k})
    return out


# --------------------------------------------------------------------------
# (d) retry - sequential, bounded-exhaustive
# --------------------------------------------------------------------------


class Flaky(Exception):
    pass


def retry_case(kind, j, retry):
    """kind in call/read/write/mtime; the operation fails on its first j attempts.  Returns list of messages."""
    import uberjob

    attempts = []
    excs = []

    def flaky(label):
        attempts.append(label)
        if len(attempts) <= j:
            e = Flaky(f"attempt {len(attempts)}")
            excs.append(e)
            raise e

    class St(uberjob.ValueStore):
        def __init__(self, name, v=None, has=False):
            self.name, self.v, self.has = name, v, has

        def read(self):
            if kind == "read" and self.name == "t":
                flaky("read")
            return self.v

        def write(self, v):
            if kind == "write" and self.name == "t":
                flaky("write")
            self.v, self.has = v, True

        def get_modified_time(self):
            if kind == "mtime" and self.name == "t":
                flaky("mtime")
            return None

    plan, reg = uberjob.Plan(), uberjob.Registry()

    def target(x=0):
        if kind == "call":
            flaky("call")
        return 41

    def dependant(v):
        return v + 1

    t = plan.call(target)
    reg.add(t, St("t"))
    d = plan.call(dependant, t)
    applied = []
    if isinstance(retry, str):
        n = {"custom2": 2, "custom3-wrap": 3}[retry]

        def deco(f):
            applied.append(getattr(f, "__name__", repr(f)))

            def wrapper(*a, **k):
                last = None
                for _ in range(n):
                    try:
                        return f(*a, **k)
                    except Exception as e:  # noqa
                        last = e
                raise last
            return wrapper
        rt = deco
    else:
        n = retry
        rt = retry
    msgs = []
    try:
        out = uberjob.run(plan, registry=reg, output=d, retry=rt, max_workers=1, progress=None)
        res = ("ret", out)
    except uberjob.CallError as e:
        res = ("exc", e)
    except Exception as e:  # noqa
        return [f"run raised {type(e).__name__}: {e}"]
    exp_attempts = min(n, j + 1)
    if len(attempts) != exp_attempts:
        msgs.append(f"{len(attempts)} attempts were made, expected min(n={n}, j+1={j + 1}) = {exp_attempts}")
    if j < n:
        if res[0] != "ret":
            msgs.append(f"operation succeeded on attempt {j + 1} <= {n} but run raised (cause {res[1].__cause__!r})")
        elif res[1] != 42:
            msgs.append(f"eventual success must count as success for dependants: run returned {res[1]!r}, expected 42")
    else:
        if res[0] != "exc":
            msgs.append(f"all {n} attempts failed but run returned {res[1]!r}")
        elif not excs or res[1].__cause__ is not excs[min(n, len(excs)) - 1]:
            msgs.append(f"reported cause is {res[1].__cause__!r}, the exception of the last attempt is {excs[min(n, len(excs)) - 1] if excs else None!r}")
    if isinstance(retry, str):
        need = {"call": "target", "read": "read", "write": "write", "mtime": "get_modified_time"}[kind]
        if need not in applied:
            msgs.append(f"custom retry decorator was never applied to {need} (applied to {applied})")
    return msgs


def retry_budget_case(j, n):
    """Two executed calls share ONE function object; a custom decorator keeps an attempt budget of n in the wrapper
    it returns (legal: the decorator is applied per executed call).  Each call fails on its first j attempts."""
    import uberjob

    attempts = {}
    decorations = []

    def flaky(key):
        attempts[key] = attempts.get(key, 0) + 1
        if attempts[key] <= j:
            raise Flaky(f"{key}: attempt {attempts[key]}")
        return key

    def deco(f):
        decorations.append(getattr(f, "__name__", "?"))
        left = [n]

        def wrapper(*a, **k):
            while True:
                if left[0] <= 0:
                    raise Flaky("attempt budget of this decoration is exhausted")
                left[0] -= 1
                try:
                    return f(*a, **k)
                except Flaky:
                    if left[0] <= 0:
                        raise
        return wrapper

    plan = uberjob.Plan()
    a = plan.call(flaky, "a")
    b = plan.call(flaky, "b")
    plan.add_dependency(a, b)
    msgs = []
    try:
        out = uberjob.run(plan, output=[a, b], retry=deco, max_workers=1, progress=None)
        ok = True
    except uberjob.CallError as e:
        ok, out = False, e
    exp = min(n, j + 1)
    should_succeed = j < n
    if should_succeed:
        if not ok:
            msgs.append(f"both calls succeed within {n} attempts each, but run raised (cause {out.__cause__!r}); attempts made {attempts}")
        elif attempts != {"a": exp, "b": exp}:
            msgs.append(f"attempts made {attempts}, expected {exp} for each call")
    else:
        if ok:
            msgs.append(f"every attempt fails but run returned {out!r}")
        elif attempts.get("a") != exp:
            msgs.append(f"call a was attempted {attempts.get('a')} times, expected {exp}")
    return msgs


def check_retry():
    viols = []
    n = 0
    for j in range(0, 4):
        for budget in (1, 2, 3):
            n += 1
            for m in retry_budget_case(j, budget):
                viols.append(common.Violation(PROP, f"retry budget per decoration :: {m[:40]}", f"custom decorator with a budget of {budget} attempts per decoration, calls fail on their first {j} attempts: {m}",
                                              {"engine": "retry-budget", "j": j, "n": budget}))
    for kind in ("call", "read", "write", "mtime"):
        for j in range(0, 5):
            for retry in (1, 2, 3, 4, "custom2", "custom3-wrap"):
                n += 1
                for m in retry_case(kind, j, retry):
                    viols.append(common.Violation(PROP, f"retry {kind} :: {m[:40]}", f"retry={retry}, {kind} fails on its first {j} attempts: {m}",
                                                  {"engine": "retry", "kind": kind, "j": j, "retry": retry}))
    return viols, {"retry_cases": n}


def explorations(tier):
    b = {"preempt": 1, "random": 1, "yield": 1} if tier == "quick" else {"preempt": 2, "random": 1, "yield": 0}
    return [
        ("in-flight bound: calls, store ops, modified-time queries", FACTORY, cfgs_inflight(tier), b),
        ("rendezvous of w ready calls with w-1 / w / w+1 workers", FACTORY, cfgs_barrier(tier), {"preempt": 1, "random": 1, "yield": 1}),
        ("fault patterns x max_errors", FACTORY, cfgs_errors(tier), {"preempt": 1, "random": 1, "yield": 1} if tier == "quick" else {"preempt": 2, "random": 1, "yield": 0}),
    ] + ([] if tier == "quick" else [
        ("in-flight bound, <=1 preemption, <=2 non-default choices at blocking points", FACTORY, cfgs_inflight(tier), {"preempt": 1, "random": 1, "yield": 2}),
        ("fault patterns x max_errors, <=1 preemption, <=1 non-default choice", FACTORY, cfgs_errors(tier), {"preempt": 1, "random": 1, "yield": 1}),
    ])


def run(tier):
    v, cov = check_retry()
    return e1prop.run(PROP, explorations(tier), extra_cov=cov, extra_viol=v)


def replay(rep):
    if rep.get("engine") == "retry-budget":
        m = retry_budget_case(rep["j"], rep["n"])
        for x in m:
            print("ORACLE:", x)
        return m
    if rep.get("engine") == "retry":
        m = retry_case(rep["kind"], rep["j"], rep["retry"])
        for x in m:
            print("ORACLE:", x)
        return m
    return e1prop.replay(PROP, rep)
