"""C11 - file-backed stores replace their file atomically at every failure point.

E4: for every store class / helper x path type x previous value present or absent x new value
(small, empty, larger than the io buffer, serialisation failing part-way), a fault-free pass
records the file operations of the write; the write is then repeated with a fault at EVERY
operation index, in every mode (OSError before / after the operation took effect, a
non-Exception BaseException, process death before / after in a forked child).  The operations
include every single write(2) call of the buffered layer ('rawwrite'), which additionally may be
accepted only in part (short count), with or without the disk then being full.
"""
import os
import pathlib
import pickle
import shutil
import tempfile

from .. import common, e4

PROP = "C11"
JUNK = b"JUNK left by a killed writer " * 3
OLD_MTIME = 1_000_000_000  # 2001-09-09: distinctive "previous value" time


class Unpicklable:
    def __reduce__(self):
        raise RuntimeError("cannot pickle this")


def _helpers_write(kind):
    """Writers built on the public staged_write / staged_write_path helpers."""
    from uberjob.stores import staged_write, staged_write_path

    if kind == "staged_write":
        def w(path, value):
            with staged_write(path, "w") as f:
                half = len(value) // 2
                f.write(value[:half])
                if value.endswith("!RAISE"):
                    raise RuntimeError("body failed part-way")
                f.write(value[half:])
        return w
    if kind == "staged_write_b":
        def w(path, value):
            with staged_write(path, "wb") as f:
                f.write(value)
        return w

    def w(path, value):
        with staged_write_path(path) as sp:
            with open(sp, "w") as f:
                half = len(value) // 2
                f.write(value[:half])
                if value.endswith("!RAISE"):
                    raise RuntimeError("body failed part-way")
                f.write(value[half:])
    return w


def cases():
    """(name, store kind, pathlib?, prev value or None, new value, value_is_bad)"""
    big = "x" * 70000
    out = []
    vals = {
        "json": [("small", {"a": [1, 2, "z"]}, False), ("empty", [], False), ("big", [big, 1], False),
                 ("bad", [1, {"k": object()}], True), ("prevv", "previous", False)],
        "pickle": [("small", {"a": (1, 2)}, False), ("empty", None, False), ("big", [big.encode()] * 2, False),
                   ("bad", [1, Unpicklable()], True), ("prevv", "previous", False)],
        "text": [("small", "hello\nworld", False), ("empty", "", False), ("big", big, False), ("bad", 42, True), ("prevv", "previous", False)],
        "binary": [("small", b"\x00\x01abc", False), ("empty", b"", False), ("big", big.encode(), False), ("bad", "notbytes", True), ("prevv", b"previous", False)],
        "touch": [("small", None, False), ("bad", 1, True), ("prevv", None, False)],
        "staged_write": [("small", "hello world", False), ("big", big, False), ("bad", "abcdef!RAISE", True), ("prevv", "previous", False)],
        "staged_write_b": [("small", b"hello", False), ("prevv", b"previous", False)],
        "staged_write_path": [("small", "hello world", False), ("big", big, False), ("bad", "abcdef!RAISE", True), ("prevv", "previous", False)],
    }
    for kind, vs in vals.items():
        prevv = next(v for n, v, _ in vs if n == "prevv")
        for n, v, bad in vs:
            if n == "prevv":
                continue
            for pl in (False, True):
                for prev in (False, True):
                    out.append({"kind": kind, "value_name": n, "pathlib": pl, "prev": prev, "bad": bad})
            # a staging file with foreign content left behind by a killed process (of any writer) is already there
            out.append({"kind": kind, "value_name": n, "pathlib": False, "prev": True, "bad": bad, "junk": True})
            out.append({"kind": kind, "value_name": n, "pathlib": True, "prev": False, "bad": bad, "junk": True})
    return out, vals


def make_writer(kind, path):
    from uberjob import stores

    cls = {"json": stores.JsonFileStore, "pickle": stores.PickleFileStore, "text": stores.TextFileStore,
           "binary": stores.BinaryFileStore, "touch": stores.TouchFileStore}.get(kind)
    if cls is not None:
        st = cls(path)
        return st.write, st.read
    w = _helpers_write(kind)

    def read():
        with open(path, "rb" if kind == "staged_write_b" else "r") as f:
            return f.read()

    return (lambda v: w(path, v)), read


def _value(vals, kind, name):
    return next(v for n, v, _ in vals[kind] if n == name)


def _run_case(case):
    """Explore one case completely; returns dict(evals, ops, viols, sample)."""
    _, vals = cases()
    kind = case["kind"]
    value = _value(vals, kind, case["value_name"])
    prevv = _value(vals, kind, "prevv")
    root = tempfile.mkdtemp(prefix="c11_")
    viols = []
    evals = 0
    combos = set()
    try:
        def fresh_dir(tag):
            d = os.path.join(root, tag)
            os.makedirs(d)
            p = os.path.join(d, "target.dat")
            return d, (pathlib.Path(p) if case["pathlib"] else p)

        def prepare(tag):
            d, p = fresh_dir(tag)
            prev_bytes = None
            if case["prev"]:
                w, _ = make_writer(kind, p)
                w(prevv)
                os.utime(p, (OLD_MTIME, OLD_MTIME))
                prev_bytes = e4.read_bytes(p)
            if case.get("junk"):
                with e4._real_open(os.path.join(d, "target.dat.STAGING"), "wb") as fh:
                    fh.write(JUNK)
            return d, p, prev_bytes

        # ---- pass 0: fault-free, records the operation list and the complete new content
        d, p, prev_bytes = prepare("ref")
        rec = e4.Recorder(d, raw=True)
        w, r = make_writer(kind, p)
        err = None
        with e4.Intercept(rec):
            try:
                w(value)
            except Exception as e:  # noqa
                err = e
        ops = list(rec.ops)
        new_bytes = e4.read_bytes(p) if not case["bad"] else None
        if case["bad"]:
            if err is None:
                viols.append(("bad-value-accepted", f"write of an unserialisable value returned normally"))
            # the serialisation error itself is a failure point: previous value and no staging file
            _oracle(case, "ref", d, p, prev_bytes, None, "exception", err, viols, ("serialisation error", "-"))
        else:
            if err is not None:
                viols.append(("ref-write-failed", f"fault-free write raised {err!r}"))
                return {"evals": 1, "ops": ops, "viols": viols, "combos": 0}
            try:
                back = r()
                if back != value or type(back) is not type(value):
                    viols.append(("ref-roundtrip", f"read after a fault-free write gave {back!r}"))
            except Exception as e:  # noqa
                viols.append(("ref-roundtrip", f"read after a fault-free write raised {e!r} (target holds {_short(e4.read_bytes(p))})"))
            if new_bytes is not None and [f for f in e4.listing(d) if f != "target.dat"]:
                viols.append(("ref-litter", f"a fault-free write left {[f for f in e4.listing(d) if f != 'target.dat']} behind"))
        evals += 1
        # ---- faults at every operation index
        for k, (opkind, detail) in enumerate(ops):
            modes = ["die-before", "die-after"]
            if opkind not in ("remove", "unlink"):
                modes = ["before", "after", "base"] + modes
            if opkind == "rawwrite":
                modes = ["short", "short-enospc"] + modes
            for mode in modes:
                tag = f"k{k}_{mode}"
                d, p, prev_bytes = prepare(tag)
                rec = e4.Recorder(d, fault=(k, mode), raw=True)
                w, r = make_writer(kind, p)
                outcome, err = "returned", None
                if mode.startswith("die"):
                    pid = os.fork()
                    if pid == 0:
                        try:
                            with e4.Intercept(rec):
                                try:
                                    w(value)
                                except BaseException:  # noqa
                                    os._exit(3)
                            os._exit(0)
                        finally:
                            os._exit(4)
                    _, status = os.waitpid(pid, 0)
                    code = os.waitstatus_to_exitcode(status)
                    outcome = "died" if code == 77 else ("child-exc" if code == 3 else "child-returned")
                    if code not in (77,):
                        # the fault position was not reached in the child (e.g. value is bad and fails earlier)
                        outcome = "not-reached"
                else:
                    with e4.Intercept(rec):
                        try:
                            w(value)
                        except e4.Injected as e:
                            outcome, err = "exception", e
                        except e4.InjectedBase as e:
                            outcome, err = "exception", e
                        except Exception as e:  # noqa
                            outcome, err = "exception", e
                    if not rec.fired:
                        outcome = "not-reached"
                evals += 1
                if outcome == "not-reached":
                    continue
                combos.add((opkind, mode))
                _oracle(case, tag, d, p, prev_bytes, new_bytes, outcome, err, viols, (opkind, mode, k))
                if outcome == "died":
                    # a staging file left by a killed process must not disturb later writes / reads
                    if not case["bad"]:
                        w2, r2 = make_writer(kind, p)
                        try:
                            w2(value)
                            back = r2()
                            if back != value:
                                viols.append((f"after-death {opkind}/{mode}", f"write+read after a death at op {k} gave {back!r}"))
                            left = [f for f in e4.listing(d) if f != "target.dat"]
                            if left:
                                viols.append((f"after-death-staging {opkind}/{mode}", f"after a death at op {k} and a later successful write the directory holds {left}"))
                        except Exception as e:  # noqa
                            viols.append((f"after-death {opkind}/{mode}", f"write/read after a death at op {k} ({opkind}) raised {e!r}"))
                shutil.rmtree(d, ignore_errors=True)
        return {"evals": evals, "ops": ops, "viols": viols, "combos": len(combos)}
    finally:
        shutil.rmtree(root, ignore_errors=True)


def _oracle(case, tag, d, p, prev_bytes, new_bytes, outcome, err, viols, where):
    cur = e4.read_bytes(p)
    ls = e4.listing(d)
    w = "/".join(map(str, where[:2]))
    allowed = [prev_bytes] + ([new_bytes] if new_bytes is not None else [])
    if cur not in allowed:
        viols.append((f"torn {w}", f"after {outcome} at {where} the target holds {_short(cur)}: neither the previous value {_short(prev_bytes)} nor the complete new value"))
    else:
        if cur == prev_bytes and prev_bytes is not None and (new_bytes is None or cur != new_bytes):
            mt = int(os.stat(p).st_mtime)
            if mt != OLD_MTIME:
                viols.append((f"mtime {w}", f"after {outcome} at {where} the target still holds the previous value but its modified time changed"))
        if outcome == "returned" and new_bytes is not None and cur != new_bytes:
            viols.append((f"silent-loss {w}", f"write returned normally although a fault was injected at {where} and the target does not hold the new value"))
    if outcome == "exception":
        extra = [f for f in ls if f != "target.dat"]
        if case.get("junk") and extra == ["target.dat.STAGING"] and e4.read_bytes(os.path.join(d, extra[0])) == JUNK:
            extra = []  # the foreign staging file that was there before the write, untouched: not left by this write
        if extra:
            viols.append((f"staging-left {w}", f"write failed by exception at {where} but left {extra} behind"))
        if prev_bytes is None and cur is not None and new_bytes is not None and cur == new_bytes and where[1] in ("before", "base"):
            pass  # fault before the op but the new value is in place: only possible for ops after the rename


def _short(b):
    if b is None:
        return "<absent>"
    return repr(b[:40]) + (f"...({len(b)} bytes)" if len(b) > 40 else "")


def run(tier):
    cs, _ = cases()
    res = common.pmap(_run_case, cs)
    viols = []
    evals = 0
    opsets = set()
    samples = []
    combos = 0
    for c, r in zip(cs, res):
        evals += r["evals"]
        combos += r["combos"]
        opsets.add(tuple(o[0] for o in r["ops"]))
        if len(samples) < 3 and c["value_name"] == "small":
            samples.append({"case": c, "operations_of_one_write": [list(map(str, o)) for o in r["ops"]]})
        for key, msg in r["viols"]:
            cname = f"{c['kind']}/{c['value_name']}/{'pathlib' if c['pathlib'] else 'str'}/{'prev' if c['prev'] else 'noprev'}"
            # known-finding keys identify the failing operation, not the value/path variant
            viols.append(common.Violation(PROP, f"{c['kind']} {key}", f"{cname}: {msg}", {"engine": "E4", "case": c}))
    cov = {
        "evaluations": evals,
        "distinct_nontrivial": combos,
        "cases": len(cs),
        "distinct_operation_sequences": len(opsets),
        "rule": ("case = store class or helper x str/pathlib path x previous value present/absent x new value (small, empty, > io buffer, serialisation failing part-way); "
                 "for each case every index k of the recorded file operations (open, write, flush, close, each write(2) call of the buffered layer, replace/rename, remove) x mode (OSError before / after the operation, "
                 "short write(2) count with / without ENOSPC afterwards, non-Exception BaseException, process death before / after in a forked child); distinct_nontrivial counts (case, operation kind, mode) combinations in which the fault actually fired"),
        "samples": samples,
        "exhaustive": True,
    }
    return {"violations": viols, "coverage": cov, "level": "fault_enumeration",
            "assumptions": ["crash model is process death (no further instruction executes, Python-level buffers lost); power loss / lost fsync is not modelled",
                            "an exception inside the clean-up's own os.remove is a second independent fault and is not injected (death there is)"]}


def replay(rep):
    r = _run_case(rep["case"])
    for k, m in r["viols"]:
        print("ORACLE:", k, m)
    return [m for k, m in r["viols"]]
