"""C12 - stores return what was written and report modified times faithfully.

E3: bounded-exhaustive enumeration of values per store domain, written and read back through
the real store classes (directly and through a MountedStore), plus every operation sequence of
length <= 4 over {write v1, write v2, read, get_modified_time} for the modified-time clauses.
"""
import itertools
import os
import pathlib
import shutil
import tempfile

from .. import common

PROP = "C12"

SPECIAL = ["a", "\n", "\r", "\x00", "\x1a", "\x85", " ", "﻿", "\U0010ffff"]
ENCODINGS = [None, "utf-8", "utf-16", "utf-8-sig", "latin-1"]


class Pt:
    """module-level class instance for pickle"""

    def __init__(self, x):
        self.x = x

    def __eq__(self, o):
        return type(o) is Pt and o.x == self.x

    def __hash__(self):
        return hash(("Pt", self.x))

    def __repr__(self):
        return f"Pt({self.x!r})"


def same(a, b):
    """equal and of the same type, recursively"""
    if type(a) is not type(b):
        return False
    if isinstance(a, (list, tuple)):
        return len(a) == len(b) and all(same(x, y) for x, y in zip(a, b))
    if isinstance(a, dict):
        return list(a.keys()) == list(b.keys()) and all(same(a[k], b[k]) for k in a)
    if isinstance(a, (set, frozenset)):
        return a == b
    return a == b


def json_values(max_size):
    atoms = [None, True, 0, -1, 1.5, 1e308, "", "\r\n", " "]
    by_size = {1: list(atoms) + [[], {}]}
    for size in range(2, max_size + 1):
        out = []
        # list of k items whose sizes sum to size-1
        for k in (1, 2):
            for parts in itertools.product(range(1, size), repeat=k):
                if sum(parts) != size - 1:
                    continue
                for items in itertools.product(*[by_size[p] for p in parts]):
                    out.append(list(items))
                    keys = ["k", "\r"][:k]
                    out.append(dict(zip(keys, items)))
        by_size[size] = out
    for size in sorted(by_size):
        yield from by_size[size]


JSON_STRS = ["\u00e9", "\u30c4", "\U00010000", "\ud83d", "\udc00\ud800", "\u2028", "\x7f", "\x80", "a\x00b", "\ufeff", "\u043a\u043b\u044e\u0447", "\\u00e9", '"\u00e9"']
JSON_ENCODINGS = (None, "utf-8", "utf-16", "ascii", "latin-1", "cp1252", "utf-8-sig", "utf-32")


def json_text_values():
    """JSON documents whose strings / keys leave ASCII (incl. lone surrogates, which json escapes): the
    store's encoding parameter must not restrict which values round-trip."""
    out = []
    for s in JSON_STRS:
        out += [s, [s], {s: s}, {"k": [s, "a" + s + "b"]}, {s: {s + "/" + s: None}}]
    return out


def pickle_extra():
    return [(), (1, "a"), ((1,), [2]), {1, 2}, frozenset({"a"}), b"", b"\x00\r\n", Pt(3), {"k": Pt((1, 2))}, 2 ** 70, 1j, {1: "int key", (1, 2): "tuple key"}, "\ud800" if False else "x"]


def text_values(tier):
    """(label, list of strings).  quick: every code point appears (in blocks of 1024) + every special string;
    thorough: every Unicode scalar value as its own one-character string."""
    scal = [c for c in range(0x110000) if not (0xD800 <= c <= 0xDFFF)]
    specials = [""] + ["".join(p) for n in (1, 2, 3) for p in itertools.product(SPECIAL, repeat=n)]
    if tier == "quick":
        singles = [chr(c) for c in list(range(0x0, 0x800)) + [0xFFFD, 0xFFFE, 0xFFFF, 0x10000, 0x10FFFF, 0xD7FF, 0xE000]]
        blocks = ["".join(map(chr, scal[i:i + 1024])) for i in range(0, len(scal), 1024)]
        return specials, singles, blocks
    return specials, [chr(c) for c in scal], []


def _enc_ok(s, enc):
    try:
        s.encode(enc or "utf-8")
        return True
    except UnicodeError:
        return False


def _mounted(stores, make):
    """A MountedStore over the file-store factory `make`, remote = a byte string held by the harness."""
    class Mounted(stores.MountedStore):
        def __init__(self):
            super().__init__(make)
            self.blob = None
            self.t = None

        def copy_from_local(self, local_path):
            with open(local_path, "rb") as f:
                self.blob = f.read()
            import datetime as dt
            self.t = dt.datetime.now()

        def copy_to_local(self, local_path):
            with open(local_path, "wb") as f:
                f.write(self.blob)

        def get_modified_time(self):
            return self.t

    return Mounted()


def _roundtrip_task(payload):
    """One shard: (store kind, encoding, pathlib?, mounted?, values) -> counts + failures."""
    kind, enc, use_pathlib, mounted, values = payload
    from uberjob import stores

    d = tempfile.mkdtemp(prefix="c12_")
    fails = []
    n = 0
    try:
        p = os.path.join(d, "v.dat")
        if use_pathlib:
            p = pathlib.Path(p)

        def make(path):
            if kind == "text":
                return stores.TextFileStore(path, encoding=enc)
            if kind == "json":
                return stores.JsonFileStore(path, encoding=enc)
            if kind == "pickle":
                return stores.PickleFileStore(path)
            if kind == "binary":
                return stores.BinaryFileStore(path)
            return stores.TouchFileStore(path)

        st = _mounted(stores, make) if mounted else make(p)
        if st.get_modified_time() is not None:
            fails.append(("mtime-before-write", "get_modified_time() is not None although nothing was written", None))
        last_t = None
        for v in values:
            n += 1
            try:
                st.write(v)
                back = st.read()
            except Exception as e:  # noqa
                fails.append(("raised", f"write/read raised {e!r}", v))
                continue
            if not same(back, v):
                fails.append(("roundtrip", f"read after write returned {back!r:.60}", v))
            t = st.get_modified_time()
            if t is None:
                fails.append(("mtime-none", "get_modified_time() is None after a write", v))
            elif last_t is not None and t < last_t:
                fails.append(("mtime-decreased", f"get_modified_time() went from {last_t} to {t}", v))
            last_t = t or last_t
        return {"n": n, "fails": fails[:20], "nfails": len(fails)}
    finally:
        shutil.rmtree(d, ignore_errors=True)


def _opseq_task(payload):
    """All operation sequences of length <= 4 over {w1, w2, read, mtime} on one store kind."""
    kind, use_pathlib = payload[:2]
    foreign = len(payload) > 2 and payload[2]
    from uberjob import stores

    vals = {"text": ("one", "two\r"), "json": ([1], {"a": None}), "pickle": ((1,), Pt(2)), "binary": (b"1", b"\x00"), "touch": (None, None)}[kind]
    cls = {"text": stores.TextFileStore, "json": stores.JsonFileStore, "pickle": stores.PickleFileStore,
           "binary": stores.BinaryFileStore, "touch": stores.TouchFileStore}[kind]
    fails = []
    n = 0
    d = tempfile.mkdtemp(prefix="c12o_")
    try:
        for length in range(1, 5):
            for seq in itertools.product(("w1", "w2", "read", "mtime"), repeat=length):
                n += 1
                p = os.path.join(d, f"s{n}.dat")
                st = cls(pathlib.Path(p) if use_pathlib else p)
                cur = "<none>"
                last_t = None
                if foreign:
                    # something else (another store type, an editor) left non-empty content at this path
                    with open(p, "wb") as fh:
                        fh.write(b'{"foreign": "content"}\n')
                    cur = "<foreign>"
                for op in seq:
                    if op in ("w1", "w2"):
                        cur = vals[0] if op == "w1" else vals[1]
                        st.write(cur)
                    elif op == "read":
                        if cur == "<foreign>":
                            try:
                                st.read()
                            except Exception:  # noqa
                                pass
                        elif cur == "<none>":
                            try:
                                st.read()
                                fails.append(("read-empty", "read of a never-written store returned a value", seq))
                            except Exception:  # noqa
                                pass
                        else:
                            try:
                                back = st.read()
                                if not same(back, cur):
                                    fails.append(("roundtrip", f"read returned {back!r}, last written {cur!r}", seq))
                            except Exception as e:  # noqa
                                fails.append(("roundtrip", f"read after write raised {e!r} (last written {cur!r}{', path held foreign content before' if foreign else ''})", seq))
                    t = st.get_modified_time()
                    if (t is None) != (cur == "<none>"):
                        fails.append(("mtime-none", f"get_modified_time() is {t} but written={cur != '<none>'}", seq))
                    if t is not None and last_t is not None and t < last_t:
                        fails.append(("mtime-decreased", f"modified time decreased {last_t} -> {t}", seq))
                    last_t = t or last_t
                if os.path.exists(p):
                    os.remove(p)
        # touch: non-None is rejected and nothing is written
        if kind == "touch":
            p = os.path.join(d, "touch.dat")
            st = cls(p)
            try:
                st.write(1)
                fails.append(("touch-accepts", "TouchFileStore.write(1) did not raise", None))
            except TypeError:
                pass
            if os.listdir(d):
                fails.append(("touch-wrote", f"rejected write left {os.listdir(d)}", None))
        return {"n": n, "fails": fails[:20], "nfails": len(fails)}
    finally:
        shutil.rmtree(d, ignore_errors=True)


# --------------------------------------------------------------------------
# mounted stores used from several threads (as uberjob's own pool does): E1
# --------------------------------------------------------------------------

CONC_FACTORY = "vlib.props.c12:MountConcHarness"


def _conc_harness_base():
    from .. import e1
    return e1


class MountConcHarness:
    """Two (three) threads, each writing its own value to its own MountedStore and reading it back; the copy
    hooks and every instruction of MountedStore.read/write/_path_context are scheduling points."""

    horizon = 4000
    int_pred = None
    bc = True

    def __init__(self, cfg):
        self.cfg = cfg

    def setup(self, s):
        return {"res": {}}

    def body(self, ctx):
        from uberjob import stores

        from .. import e1

        kind = self.cfg["kind"]

        def make(path):
            return stores.TextFileStore(path) if kind == "text" else stores.JsonFileStore(path)

        class Mounted(stores.MountedStore):
            def __init__(self_):
                super().__init__(make)
                self_.blob = None

            def copy_from_local(self_, local_path):
                e1.hpoint("copy_from_local")
                with open(local_path, "rb") as f:
                    self_.blob = f.read()
                e1.hpoint("copy_from_local.done")

            def copy_to_local(self_, local_path):
                e1.hpoint("copy_to_local")
                with open(local_path, "wb") as f:
                    f.write(self_.blob)
                e1.hpoint("copy_to_local.done")

            def get_modified_time(self_):
                return None

        n = self.cfg["threads"]
        if self.cfg.get("files"):
            # plain file stores in ONE directory whose names share a stem (model.pkl / model.json / model.txt)
            import pathlib
            d = ctx["dir"] = tempfile.mkdtemp(prefix="c12s_")
            mk = [lambda p_: stores.PickleFileStore(p_), lambda p_: stores.JsonFileStore(p_), lambda p_: stores.TextFileStore(p_)]
            ext = [".pkl", ".json", ".txt"]
            conv = pathlib.Path if self.cfg["files"] == "pathlib" else str
            sts = [mk[i](conv(os.path.join(d, "model" + ext[i]))) for i in range(n)]
        else:
            sts = [Mounted() for _ in range(n)]
        vals = [f"value-{i}" * (i + 1) for i in range(n)]
        res = ctx["res"]

        def worker(i):
            def f():
                try:
                    if self.cfg["mode"] == "write-read":
                        sts[i].write(vals[i])
                        res[i] = ("ret", sts[i].read())
                    else:
                        res[i] = ("ret", sts[i].read())
                except BaseException as e:  # noqa
                    if isinstance(e, e1.Abort):
                        raise
                    res[i] = ("exc", repr(e))
            return f

        if self.cfg["mode"] == "read-read":
            for i in range(n):
                sts[i].write(vals[i])
        ths = [e1.Thread(target=worker(i)) for i in range(n)]
        for t in ths:
            t.start()
        for t in ths:
            t.join()
        ctx["vals"] = vals
        if ctx.get("dir"):
            ctx["left"] = sorted(f for f in os.listdir(ctx["dir"]) if f.endswith(".STAGING"))
            shutil.rmtree(ctx["dir"], ignore_errors=True)
        return None

    def check(self, x):
        msgs = []
        if x.status != "ok":
            msgs.append(("C12", f"{x.status}: {x.sched.deadlock_info}"))
            return msgs, (x.status,)
        mr = x.sched.main_result
        if mr and mr[0] == "exc":
            msgs.append(("C12", f"harness body raised {mr[1]!r}"))
            return msgs, ("exc",)
        for i, v in enumerate(x.ctx["vals"]):
            r = x.ctx["res"].get(i)
            if r is None or r[0] == "exc":
                msgs.append(("C12", f"thread {i}: write/read through its own MountedStore failed while another mounted store was in use: {r}"))
            elif r[1] != v:
                msgs.append(("C12", f"thread {i}: read through its own store returned {r[1]!r}, it had written {v!r} (another store was in use concurrently)"))
        if x.ctx.get("left"):
            msgs.append(("C12", f"staging files left after all writes returned: {x.ctx['left']}"))
        return msgs, ("ok", tuple(sorted(x.ctx["res"].items())))


def mounted_concurrency(tier):
    from uberjob.stores import _mounted_store as ms

    from .. import e1, e1run

    from uberjob.stores import _file_store as fs
    from uberjob.stores import _json_file_store as js
    from uberjob.stores import _pickle_file_store as ps
    from uberjob.stores import _text_file_store as ts

    e1.install_bc([ms.MountedStore.read, ms.MountedStore.write, ms._path_context.__wrapped__], mode="all")
    e1.install_bc([fs.staged_write_path.__wrapped__, fs.staged_write.__wrapped__, js.JsonFileStore.write, ps.PickleFileStore.write, ts.TextFileStore.write], mode="all")
    cfgs = [{"kind": k, "threads": 2, "mode": m} for k in ("text", "json") for m in ("write-read", "read-read")]
    cfgs += [{"kind": "files", "files": f, "threads": 2, "mode": "write-read"} for f in ("pathlib", "str")]
    budget = {"preempt": 1} if tier == "quick" else {"preempt": 2}
    agg = e1run.explore(CONC_FACTORY, cfgs, budget)
    v, _ = e1run.to_violations(PROP, agg, CONC_FACTORY, budget)
    if tier != "quick":
        # three threads: one preemption (two would be ~10^6 executions for this configuration alone)
        c3 = [{"kind": "text", "threads": 3, "mode": "write-read"}, {"kind": "files", "files": "pathlib", "threads": 3, "mode": "write-read"}]
        a3 = e1run.explore(CONC_FACTORY, c3, {"preempt": 1})
        v3, _ = e1run.to_violations(PROP, a3, CONC_FACTORY, {"preempt": 1})
        v += v3
        agg = e1run.merge([agg, a3])
        cfgs = cfgs + c3
    return v, {"mounted_concurrent_configs": len(cfgs), "mounted_concurrent_executions": agg["executions"], "mounted_concurrent_budget": budget,
               "mounted_concurrent_capped": agg["capped"]}


def _chunks(xs, k):
    xs = list(xs)
    size = max(1, (len(xs) + k - 1) // k)
    return [xs[i:i + size] for i in range(0, len(xs), size)]


def run(tier):
    specials, singles, blocks = text_values(tier)
    jv = list(json_values(3 if tier == "quick" else 4))
    shards = []
    ncpu = common.ncores()
    for enc in ENCODINGS:
        pool = specials + blocks
        ok = [s for s in pool if _enc_ok(s, enc)] if enc == "latin-1" else pool
        if enc == "latin-1":
            ok += ["".join(map(chr, range(256)))]
        for pl, mounted in ((False, False), (True, False), (False, True)):
            shards.append(("text", enc, pl, mounted, ok))
        single_ok = [s for s in singles if enc != "latin-1" or ord(s) < 256]
        if enc in (None, "utf-8") or tier != "quick":
            for ch in _chunks(single_ok, ncpu if enc in (None, "utf-8") else 4):
                shards.append(("text", enc, False, False, ch))
    for enc in (None, "utf-8", "utf-16"):
        for pl, mounted in ((False, False), (True, False), (False, True)):
            shards.append(("json", enc, pl, mounted, jv))
    jtv = json_text_values()
    for enc in JSON_ENCODINGS:
        shards.append(("json", enc, False, False, jtv))
    shards.append(("json", "ascii", True, False, jtv))
    shards.append(("json", "latin-1", False, True, jtv))
    pv = jv + jtv + pickle_extra()
    for pl, mounted in ((False, False), (True, False), (False, True)):
        shards.append(("pickle", None, pl, mounted, pv))
    bins = [b""] + [bytes([a]) for a in range(256)] + [b"\r\n", b"\n\r", b"\x1a\x00", b"\xff\xfe", bytes(range(256)) * 256]
    if tier != "quick":
        bins += [bytes([a, b]) for a in range(256) for b in range(256)]
    for ch in _chunks(bins, 1 if tier == "quick" else ncpu):
        shards.append(("binary", None, False, False, ch))
    shards.append(("binary", None, True, False, bins[:300]))
    shards.append(("binary", None, False, True, bins[:300]))
    shards.append(("touch", None, False, False, [None, None]))
    shards.append(("touch", None, False, True, [None]))
    res = common.pmap(_roundtrip_task, shards)
    ops = [(k, pl) for k in ("text", "json", "pickle", "binary", "touch") for pl in (False, True)]
    ops += [(k, False, True) for k in ("text", "json", "pickle", "binary", "touch")]
    res2 = common.pmap(_opseq_task, ops)
    viols = []
    n = 0
    distinct = set()
    for sh, r in zip(shards, res):
        n += r["n"]
        for v in sh[4]:
            try:
                distinct.add((sh[0], repr(v)[:200]))
            except Exception:  # noqa
                pass
        for key, msg, v in r["fails"]:
            what = f"{sh[0]} store, encoding={sh[1]}, {'pathlib' if sh[2] else 'str'} path{', mounted' if sh[3] else ''}"
            viols.append(common.Violation(PROP, f"{sh[0]} {key} {_classify(v)}", f"{what}: value {v!r:.80}: {msg}",
                                          {"engine": "E3", "kind": sh[0], "encoding": sh[1], "pathlib": sh[2], "mounted": sh[3], "value": repr(v)[:200]}))
    n2 = 0
    for (k, pl, *_), r in zip(ops, res2):
        n2 += r["n"]
        for key, msg, seq in r["fails"]:
            viols.append(common.Violation(PROP, f"{k} opseq {key} {_classify(vals_of(k))}", f"{k} store, sequence {seq}: {msg}", {"engine": "E3-ops", "kind": k, "pathlib": pl, "seq": seq}))
    cv, ccov = mounted_concurrency(tier)
    viols += cv
    cov = {
        "evaluations": n + n2 + ccov["mounted_concurrent_executions"],
        "distinct_nontrivial": len(distinct),
        "roundtrips": n, "operation_sequences": n2,
        "rule": ("write+read+get_modified_time of every enumerated value through the real store: TextFileStore x encodings {default, utf-8, utf-16, utf-8-sig, latin-1}: all strings of length <= 3 over "
                 f"{SPECIAL!r}, every Unicode scalar value (quick: 0..0x7ff singly, all others in 1024-code-point blocks; thorough: each alone); JsonFileStore: every JSON value of size <= 3 (thorough 4) over the atom set, plus documents whose strings / keys are non-ASCII, astral, lone surrogates or escape look-alikes x encodings (default, utf-8, utf-8-sig, utf-16, utf-32, ascii, latin-1, cp1252); "
                 "PickleFileStore: those plus tuples/sets/bytes/class instance/complex/big int; BinaryFileStore: all byte strings of length <= 1 (thorough 2) + 64 KiB; TouchFileStore; str and pathlib paths; each also through a MountedStore; "
                 "plus every operation sequence of length <= 4 over {write v1, write v2, read, get_modified_time}; distinct_nontrivial = distinct (store, value) pairs"),
        "samples": [{"store": "text", "encoding": "utf-8", "value": "a\\r\\u2028"}, {"store": "json", "value": repr(jv[40])}, {"store": "ops", "sequence": ["w1", "mtime", "w2", "read"]}],
        "exhaustive": not ccov["mounted_concurrent_capped"],
    }
    cov.update(ccov)
    cov["rule"] += "; plus E1: 2 (thorough 3) threads each writing and reading back through their own MountedStore, every schedule with <= 1 (2) preemptions, every instruction of MountedStore.read/write a scheduling point"
    return {"violations": viols, "coverage": cov, "level": "exploration",
            "assumptions": ["'large values' are represented by 64 KiB / 1024-code-point strings", "NaN (not equal to itself) and non-string dict keys are outside the JSON domain"]}


def _classify(v):
    if isinstance(v, str):
        if "\r" in v:
            return "carriage-return"
        return "str"
    return type(v).__name__


def replay(rep):
    if rep.get("engine") == "E1":
        from uberjob.stores import _mounted_store as ms

        from .. import e1, e1run

        e1.install_bc([ms.MountedStore.read, ms.MountedStore.write, ms._path_context.__wrapped__], mode="all")
        return [m for t, m in e1run.replay(rep) if t == PROP]
    if rep.get("engine") == "E3-ops":
        r = _opseq_task((rep["kind"], rep["pathlib"]))
        return [m for k, m, s in r["fails"]]
    import ast
    try:
        v = ast.literal_eval(rep["value"])
    except Exception:  # noqa
        print("value not literal; re-run the check")
        return ["not replayable"]
    r = _roundtrip_task((rep["kind"], rep["encoding"], rep["pathlib"], rep["mounted"], [v]))
    for k, m, vv in r["fails"]:
        print("ORACLE:", k, m)
    return [m for k, m, vv in r["fails"]]


def vals_of(kind):
    return {"text": "two\r"}.get(kind, 0)
