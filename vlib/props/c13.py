"""C13 - run, dry_run and render never modify the Plan or Registry they are given.

(a) E3: every sequence of length <= 3 over an alphabet of operations (successful run, run failing in
    the stale check / in a call / in a store write, dry run, render, render(level), container output,
    transform_physical that edits the physical plan, run without registry, Plan.copy / Registry.copy
    followed by mutation of the copy) on five plans; after EVERY step a deep identity snapshot of the
    plan and registry must equal the original, and a final run must still give the reference result.
(b) E1: two threads run / dry-run the SAME plan and registry concurrently; every schedule with <= 1
    preemption, scheduling points inside the transformation code; both must return the sequential
    result and the snapshot must be unchanged.
"""
import itertools

from .. import common, e1, e1run

PROP = "C13"
FACTORY = "vlib.props.c13:ConcHarness"


class Boom(Exception):
    pass


def snapshot(plan, registry):
    g = plan.graph
    nodes = []
    for n in g.nodes():
        nodes.append((id(n), type(n).__name__, getattr(n, "scope", "<no scope attribute>"), id(getattr(n, "fn", None)), id(getattr(n, "value", None)),
                      id(getattr(n, "stack_frame", None)), tuple(sorted(g.nodes[n].items(), key=repr))))
    edges = sorted((id(u), id(v), type(k).__name__, getattr(k, "index", None), getattr(k, "name", None), tuple(sorted(d.items(), key=repr)))
                   for u, v, k, d in g.edges(keys=True, data=True))
    reg = None
    if registry is not None:
        reg = tuple((id(n), id(rv), id(rv.value_store), rv.is_source, id(rv.stack_frame)) for n, rv in registry.mapping.items())
    return {"nodes": tuple(nodes), "edges": tuple(edges), "scope": plan._scope, "graph_attrs": tuple(sorted(g.graph.items(), key=repr)), "registry": reg}


def diff(a, b):
    for k in a:
        if a[k] != b[k]:
            if isinstance(a[k], tuple) and isinstance(b[k], tuple):
                sa, sb = set(a[k]), set(b[k])
                return f"{k} changed: {len(sa - sb)} entries removed/changed, {len(sb - sa)} entries added/changed (before {len(a[k])}, after {len(b[k])})"
            return f"{k} changed: {a[k]!r} -> {b[k]!r}"
    return None


# --------------------------------------------------------------------------
# worlds
# --------------------------------------------------------------------------


def make_world(shape):
    import datetime as dt

    import uberjob

    ctl = {"fail": None}

    class St(uberjob.ValueStore):
        def __init__(self, name, v=None, t=None):
            self.name, self.v, self.t = name, v, t

        def read(self):
            return self.v

        def write(self, v):
            if ctl["fail"] == "write":
                raise Boom("write")
            self.v = v
            ctl["clock"] = ctl.get("clock", 10) + 1
            self.t = dt.datetime(2020, 1, 1) + dt.timedelta(seconds=ctl["clock"])

        def get_modified_time(self):
            if ctl["fail"] == "mtime" or (ctl["fail"] == "mtimeadded" and self in ctl.get("added", ())):
                raise Boom("mtime")
            return self.t

    def fn(name):
        def f(*a, **k):
            if ctl["fail"] == "call":
                raise Boom("call")
            return (name,) + tuple(a) + tuple(sorted(k.items()))
        f.__name__ = f.__qualname__ = name
        return f

    plan = uberjob.Plan()
    reg = uberjob.Registry()
    stores = []

    def S(v):
        s = St(f"s{len(stores)}", v, dt.datetime(2020, 1, 1))
        stores.append(s)
        return s

    def E():
        s = St(f"s{len(stores)}")
        stores.append(s)
        return s

    if shape == "chain":
        with plan.scope("outer"):
            x = reg.source(plan, S(1))
            with plan.scope("inner", 2):
                a = plan.call(fn("a"), x)
                reg.add(a, E())
                b = plan.call(fn("b"), a, k=a)
            c = plan.call(fn("c"), b)
            reg.add(c, E())
        out = c
    elif shape == "diamond-literals":
        x = reg.source(plan, S(1))
        with plan.scope("s"):
            a = plan.call(fn("a"), x, [x, 5])
            b = plan.call(fn("b"), x)
            reg.add(a, E())
            lit = plan.lit("L")
            plan.add_dependency(a, lit)
            c = plan.call(fn("c"), a, b, lit)
            plan.add_dependency(b, c)
            reg.add(c, E())
        out = [c, {"k": a}]
    elif shape == "dependent-source":
        x = reg.source(plan, S(1))
        shared = E()
        a = plan.call(fn("a"), x)
        reg.add(a, shared)
        y = reg.source(plan, shared)
        plan.add_dependency(a, y)
        with plan.scope("z"):
            z = plan.call(fn("z"), y)
        out = z
    elif shape == "stored-literal-unpack":
        lit = plan.lit((1, 2))
        reg.add(lit, E())
        p, q = plan.unpack(lit, 2)
        with plan.scope("u"):
            c = plan.call(fn("c"), p, q)
            reg.add(c, E())
        out = (c, p)
    else:  # "no-registry-needed"
        with plan.scope("a"):
            a = plan.call(fn("a"))
            b = plan.call(fn("b"), a)
        with plan.scope("b"):
            c = plan.call(fn("c"), a, b)
        un = plan.call(fn("unneeded"), c)  # noqa: F841
        out = {"r": c}
    return {"uberjob": uberjob, "plan": plan, "reg": reg, "out": out, "ctl": ctl, "stores": stores, "fn": fn, "St": St}


SHAPES = ["chain", "diamond-literals", "dependent-source", "stored-literal-unpack", "no-registry-needed"]

OPS = ["run", "run-fail-mtime", "run-fail-mtimeadded", "run-fail-call", "run-fail-write", "dry", "render", "render-level", "render-level0", "render-predicate-level2", "render-dry", "run-none-output",
       "transform-physical", "run-no-registry", "copy-mutate", "regcopy-mutate", "run-fresh-time", "run-2-workers-random"]


def do_op(w, op):
    """Perform one operation; returns a message if the operation itself misbehaved (copies not independent)."""
    u, plan, reg, out, ctl = w["uberjob"], w["plan"], w["reg"], w["out"], w["ctl"]
    ctl["fail"] = None
    import datetime as dt

    try:
        if op == "run":
            u.run(plan, registry=reg, output=out, progress=None, max_workers=1)
        elif op == "run-2-workers-random":
            u.run(plan, registry=reg, output=out, progress=None, max_workers=2, scheduler="random")
        elif op == "run-fresh-time":
            u.run(plan, registry=reg, output=out, progress=None, max_workers=1, fresh_time=dt.datetime(2030, 1, 1))
        elif op == "run-none-output":
            u.run(plan, registry=reg, progress=None, max_workers=1)
        elif op in ("run-fail-mtime", "run-fail-mtimeadded", "run-fail-call", "run-fail-write"):
            ctl["fail"] = op.split("-")[-1]
            # stores registered with registry.add (not registry.source)
            ctl["added"] = [rv.value_store for rv in reg.mapping.values() if not rv.is_source]
            for s in w["stores"][1:]:
                if not op.startswith("run-fail-mtime"):
                    s.v, s.t = None, None  # make something stale so that calls / writes happen
            try:
                u.run(plan, registry=reg, output=out, progress=None, max_workers=1, max_errors=None)
            except Exception:  # noqa  however the run fails, the caller's plan must be untouched
                # (a failing modified-time query of a stored *Literal* surfaces as AttributeError from
                # CallError(<Literal>) rather than as a CallError: observed, outside the listed properties)
                pass
        elif op == "dry":
            u.run(plan, registry=reg, output=out, progress=None, dry_run=True)
        elif op == "render":
            u.render(plan, registry=reg, format="dot") if _can_render() else None
        elif op == "render-level":
            u.render(plan, registry=reg, level=1, format="dot") if _can_render() else None
        elif op == "render-level0":
            u.render(plan, registry=reg, level=0, format="dot") if _can_render() else None
        elif op == "render-predicate-level2":
            u.render(plan, predicate=lambda n, d: bool(getattr(n, "scope", ())), level=2, format="dot") if _can_render() else None
        elif op == "render-dry":
            pr = u.run(plan, registry=reg, output=out, progress=None, dry_run=True)
            u.render(pr, level=0, format="dot") if _can_render() else None
            u.render(plan.graph, level=-1, format="dot") if _can_render() else None
        elif op == "transform-physical":
            def tp(p, o):
                # the physical plan is ours to edit: add a node, drop edges
                extra = p.call(len, [1])
                if o is not None:
                    p.add_dependency(extra, o)
                for n in list(p.graph.nodes()):
                    if getattr(n, "scope", None):
                        n.scope = ("edited",) if n not in set(plan.graph.nodes()) else n.scope
                return p, o
            u.run(plan, registry=reg, output=out, progress=None, max_workers=1, transform_physical=tp)
        elif op == "run-no-registry":
            try:
                u.run(plan, output=out, progress=None, max_workers=1)
            except u.CallError:
                pass  # source nodes without their registry raise NotTransformedError: fine
        elif op == "copy-mutate":
            c = plan.copy()
            before = snapshot(c, None)
            if before["nodes"] != snapshot(plan, None)["nodes"] or before["edges"] != snapshot(plan, None)["edges"]:
                return "Plan.copy() differs from the original"
            extra = c.call(w["fn"]("extra"), *list(c.graph.nodes())[:2])
            c.add_dependency(list(c.graph.nodes())[0], extra)
            c.graph.remove_node(list(c.graph.nodes())[1])
            with c.scope("copy-scope"):
                c.lit(1)
        elif op == "regcopy-mutate":
            rc = reg.copy()
            if [id(n) for n in rc.mapping] != [id(n) for n in reg.mapping]:
                return "Registry.copy() has different keys"
            extra = plan.copy()
            for n, rv in rc.mapping.items():
                rv.value_store = w["St"]("other")
                rv.is_source = not rv.is_source
            rc.mapping.pop(next(iter(rc.mapping), None), None)
            rc.source(extra, w["St"]("new"))
    finally:
        ctl["fail"] = None
    return None


_RENDER = [None]


def _can_render():
    if _RENDER[0] is None:
        try:
            import nxv  # noqa: F401
            _RENDER[0] = True
        except Exception:  # noqa
            _RENDER[0] = False
    return _RENDER[0]


def _seq_task(payload):
    shape, first, maxlen = payload
    n = 0
    fails = []
    rest = [()] + [(o,) for o in OPS] + (list(itertools.product(OPS, repeat=2)) if maxlen >= 3 else [])
    ref_w = make_world(shape)
    try:
        ref = ref_w["uberjob"].run(ref_w["plan"], registry=ref_w["reg"], output=ref_w["out"], progress=None, max_workers=1)
    except Exception as e:  # noqa
        return {"n": 1, "fails": [("pristine run failed", f"plan '{shape}': the very first run of a fresh plan raised {type(e).__name__}: {e}", (first,))], "nfails": 1}
    for tail in rest:
        seq = (first,) + tail
        w = make_world(shape)
        base = snapshot(w["plan"], w["reg"])
        n += 1
        for k, op in enumerate(seq):
            try:
                m = do_op(w, op)
            except Exception as e:  # noqa
                m = f"operation raised {type(e).__name__}: {e}"
            if m:
                fails.append((f"{op}: {m[:50]}", f"plan '{shape}', sequence {seq}: step {k} ({op}): {m}", seq))
                break
            d = diff(base, snapshot(w["plan"], w["reg"]))
            if d:
                fails.append((f"{op}: {d.split(':')[0]}", f"plan '{shape}', sequence {seq}: after step {k} ({op}) the caller's plan/registry differ: {d}", seq))
                break
        else:
            for s in w["stores"][1:]:
                s.v, s.t = None, None
            try:
                got = w["uberjob"].run(w["plan"], registry=w["reg"], output=w["out"], progress=None, max_workers=1)
                if repr(got) != repr(ref):
                    fails.append(("meaning changed", f"plan '{shape}', sequence {seq}: a later run returned {got!r}, a pristine twin gives {ref!r}", seq))
            except Exception as e:  # noqa
                fails.append(("meaning changed", f"plan '{shape}', sequence {seq}: a later run raised {e!r}", seq))
    # originals mutated -> copies unchanged
    try:
        _copies_follow(shape, fails)
    except Exception as e:  # noqa
        fails.append(("copy section raised", f"plan '{shape}': copying / mutating raised {type(e).__name__}: {e}", ()))
    return {"n": n, "fails": fails[:10], "nfails": len(fails)}


def _copies_follow(shape, fails):
    w = make_world(shape)
    pc, rc = w["plan"].copy(), w["reg"].copy()
    sc = snapshot(pc, None)
    src_ = [(id(nd), id(rv.value_store), rv.is_source) for nd, rv in rc.mapping.items()]
    w["plan"].call(w["fn"]("later"), *list(w["plan"].graph.nodes())[:1])
    w["reg"].source(w["plan"], w["St"]("later"))
    for nd, rv in w["reg"].mapping.items():
        rv.value_store = w["St"]("swapped")
    if diff(sc, snapshot(pc, None)) or src_ != [(id(nd), id(rv.value_store), rv.is_source) for nd, rv in rc.mapping.items()]:
        fails.append(("copy follows original", f"plan '{shape}': mutating the original changed an earlier Plan.copy()/Registry.copy()", ()))


# --------------------------------------------------------------------------
# (b) concurrent runs of one plan under E1
# --------------------------------------------------------------------------


class ConcHarness(e1.Harness):
    horizon = 20000
    bc = True

    def __init__(self, cfg):
        from ..engine import patch_engine

        patch_engine()
        self.cfg = cfg

    def setup(self, s):
        from .. import dethash

        dethash.reset(0)
        dethash.begin_execution()
        w = make_world(self.cfg["shape"])
        w["base"] = snapshot(w["plan"], w["reg"])
        ref_w = make_world(self.cfg["shape"])
        w["ref"] = repr(ref_w["uberjob"].run(ref_w["plan"], registry=ref_w["reg"], output=ref_w["out"], progress=None, max_workers=1, dry_run=False)) if False else None
        return w

    def body(self, w):
        u = w["uberjob"]
        res = {}

        def worker(name, mode):
            def f():
                try:
                    if mode == "run":
                        res[name] = ("ret", repr(u.run(w["plan"], registry=w["reg"], output=w["out"], progress=None, max_workers=1)))
                    elif mode == "dry":
                        p, o = u.run(w["plan"], registry=w["reg"], output=w["out"], progress=None, dry_run=True)
                        res[name] = ("ret", "dry")
                    else:
                        u.render(w["plan"], registry=w["reg"], format="dot", level=1)
                        res[name] = ("ret", "render")
                except BaseException as e:  # noqa
                    if isinstance(e, e1.Abort):
                        raise
                    res[name] = ("exc", repr(e))
            return f

        t1 = e1.Thread(target=worker("A", self.cfg["modes"][0]))
        t2 = e1.Thread(target=worker("B", self.cfg["modes"][1]))
        t1.start()
        t2.start()
        t1.join()
        t2.join()
        w["res"] = res
        w["after"] = snapshot(w["plan"], w["reg"])
        return res

    def check(self, x):
        msgs = []
        w = x.ctx
        if x.status != "ok":
            msgs.append(("C07", f"{x.status}: {x.sched.deadlock_info}"))
            return msgs, (x.status,)
        res = w.get("res", {})
        ref = self.reference()
        for name, mode in zip("AB", self.cfg["modes"]):
            r = res.get(name)
            if r is None or r[0] == "exc":
                msgs.append(("C13", f"thread {name} ({mode}) on the shared plan failed: {r}"))
            elif mode == "run" and r[1] != ref:
                msgs.append(("C13", f"thread {name}: concurrent run of the same plan returned {r[1]}, sequentially it returns {ref}"))
        d = diff(w["base"], w["after"])
        if d:
            msgs.append(("C13", f"after two concurrent {self.cfg['modes']} the caller's plan/registry differ: {d}"))
        return msgs, (x.status, tuple(sorted(res.items())))

    _ref = None

    def reference(self):
        if self._ref is None:
            from ..engine import patch_engine, unpatch_engine

            unpatch_engine()
            try:
                rw = make_world(self.cfg["shape"])
                self._ref = repr(rw["uberjob"].run(rw["plan"], registry=rw["reg"], output=rw["out"], progress=None, max_workers=1))
            finally:
                patch_engine()
        return self._ref


def install_points():
    import uberjob._plan as _plan
    import uberjob._run as _run
    import uberjob._transformations as _tr
    import uberjob._transformations.caching as caching
    import uberjob._transformations.pruning as pruning
    from ..engine import install_engine_bc

    install_engine_bc()
    roots = [caching.plan_with_value_stores, caching._add_value_store, caching._get_stale_nodes, pruning.prune_plan,
             pruning._prune_literal_if_trivial, pruning.prune_source_literals, _plan.Plan.copy, _plan.Plan._call, _plan.Plan.lit,
             _plan.Plan._gather, _tr.get_mutable_plan, _run.run]
    return e1.install_bc(roots, mode="shared")


def conc_explorations(tier):
    """(cfgs, budget) pairs.  'yield' bounds non-default choices at blocking points."""
    shapes = ["chain", "dependent-source"] if tier == "quick" else SHAPES[:4]
    rr = [{"shape": s, "modes": ["run", "run"]} for s in shapes]
    rd = [{"shape": s, "modes": list(m)} for s in shapes for m in (("run", "dry"), ("dry", "run")) + ((("run", "render"), ("dry", "dry")) if tier != "quick" else ())]
    if tier == "quick":
        return [(rr, {"preempt": 1, "yield": 1}), (rd, {"preempt": 1, "yield": 0})]
    # (budgets multiply: ~1200 preemption alternatives x ~150 blocking-point alternatives per execution)
    return [(rr, {"preempt": 1, "yield": 1}), (rr, {"preempt": 0, "yield": 2}), (rr[:1], {"preempt": 2, "yield": 0}),
            (rd, {"preempt": 1, "yield": 0}), (rd[:4], {"preempt": 1, "yield": 1})]


def run(tier):
    maxlen = 2 if tier == "quick" else 3
    payloads = [(s, f, maxlen) for s in SHAPES for f in OPS]
    res = common.pmap(_seq_task, payloads)
    viols = []
    n = 0
    for (shape, first, _), r in zip(payloads, res):
        n += r["n"]
        for key, msg, seq in r["fails"]:
            viols.append(common.Violation(PROP, key, msg, {"engine": "E3", "shape": shape, "seq": list(seq)}))
    install_points()
    # two independent runs have ~50 blocking points with 2-4 enabled threads each: the choice of who runs
    # next at a blocking point is bounded too ("yield"), otherwise the non-preemptive schedules alone explode
    aggs = []
    notes = []
    for cfgs, budget in conc_explorations(tier):
        a = e1run.explore(FACTORY, cfgs, budget)
        v2, nt = e1run.to_violations(PROP, a, FACTORY, budget)
        viols += v2
        notes += nt
        aggs.append(a)
    agg = e1run.merge(aggs)
    cov = {
        "evaluations": n + agg["executions"],
        "distinct_nontrivial": n,
        "operation_sequences": n, "operations": OPS, "plans": SHAPES, "render_available": bool(_can_render()),
        "e1_configs": agg["configs"], "e1_executions": agg["executions"], "e1_schedule_tree_nodes": agg["tree_nodes"],
        "e1_max_points_per_execution": agg["max_points"], "e1_capped": agg["capped"], "e1_budgets": [b for _, b in conc_explorations(tier)],
        "rule": ("(a) all operation sequences of length <= 2 (thorough: 3) over the 18-operation alphabet on 5 plans (scopes, literals with dependencies, dependent source on a shared store, stored literal + unpack, unneeded nodes); "
                 "deep identity snapshot (node objects, scope/fn/value/stack_frame identities, edge multiset with keys and data, plan scope, registry entries and their RegistryValue objects) compared after every step, "
                 "final run compared with a pristine twin; (b) two threads run/dry-run/render the same plan+registry: every schedule with <= 1 preemption and <= 1 (thorough 2) non-default choices at blocking points, scheduling points at attribute/subscript accesses of the transformation code"),
        "samples": [{"plan": "chain", "sequence": ["run-fail-write", "dry", "run"]}, {"concurrent": ["run", "run"], "plan": "chain"}],
        "exhaustive": not agg["capped"],
    }
    return {"violations": viols, "notes": notes, "coverage": cov, "level": "exploration",
            "assumptions": ["node objects are shared between a plan and its copies by design; only structural mutation of copies is exercised",
                            "E1 trusted base as for C01 (shim threading, bytecode atomicity)"]}


def replay(rep):
    if rep.get("engine") == "E1":
        install_points()
        return [m for t, m in e1run.replay(rep) if t == PROP]
    r = _seq_task((rep["shape"], rep["seq"][0] if rep["seq"] else OPS[0], 3))
    out = [m for k, m, s in r["fails"] if list(s) == list(rep["seq"])]
    for m in out:
        print("ORACLE:", m)
    return out
