"""C14 - a dry run touches nothing and returns a faithful, self-contained physical plan.

E2 twin worlds: real run vs dry run + executing the returned plan alone, from every reachable state.
"""
from .. import e2prop

# normalising stores: a returned output node that denotes the in-memory value instead of the read-back is visible
KW = dict(tags=["C14"], norm=True, opts={"dry": True})
PROP = "C14"


def run(tier):
    kw = dict(KW)
    if tier == "quick":
        # the twin oracle performs six extra runs per RUN event: quick tier requests no output / the last node / all nodes
        kw["opts"] = dict(kw["opts"], outs="few")
    return e2prop.run(PROP, tier, **kw)


def replay(rep):
    return e2prop.replay(PROP, rep, tags=KW.get("tags"))
