"""C15 - progress observers receive an exact, well-formed account of every run.

E1 with a recording ProgressObserver (its methods are scheduling points): every schedule within the
preemption bound of uberjob.run on plans with nested and repeated scopes, with and without a registry,
fault patterns, max_errors, 1-2 workers, single and composite observers.  Oracle = an automaton over
the recorded notification sequence of each execution.
"""
import itertools

from .. import e1, e1prop, planh

PROP = "C15"
FACTORY = "vlib.props.c15:ObsHarness"


class ObserverStartError(Exception):
    pass


class ObsHarness(planh.PlanHarness):
    def __init__(self, cfg):
        cfg = dict(cfg)
        cfg.setdefault("observer", "rec")
        cfg["obs_points"] = True
        super().__init__(cfg)
        import uberjob

        self.stored = {int(k): v for k, v in (cfg.get("stored") or {}).items()}
        self.registry = None
        self.stores = {}
        if self.stored:
            harness = self

            class St(uberjob.ValueStore):
                def __init__(self, i):
                    self.i = i

                def read(self):
                    e1.hpoint(("store.read", self.i))
                    return harness.state[self.i][1]

                def write(self, v):
                    e1.hpoint(("store.write", self.i))
                    harness.state[self.i] = (2, v)

                def get_modified_time(self):
                    import datetime as dt
                    e1.hpoint(("store.mtime", self.i))
                    st = harness.state.get(self.i)
                    return None if st is None else dt.datetime(2020, 1, 1 + st[0])

            self.registry = uberjob.Registry()
            for i in sorted(self.stored):
                self.stores[i] = St(i)
                self.registry.add(self.calls[i], self.stores[i])
        # same function name for several calls => several calls share one scope
        for i, name in (cfg.get("fname") or {}).items():
            self.fns[int(i)].__name__ = self.fns[int(i)].__qualname__ = name
        from uberjob._util import fully_qualified_name
        fully_qualified_name.cache_clear()
        self.user_scope = {}
        for i, c in enumerate(self.calls):
            self.user_scope[i] = (*c.scope, fully_qualified_name(c.fn))
        self.n_plan_calls = None

    def setup(self, s):
        ctx = super().setup(s)
        self.state = {i: (None if v == "missing" else (1, planh.Val(i, (), ()))) for i, v in self.stored.items()}
        return ctx

    def make_recorder_id(self, s, rid, fail_enter=False, fresh_ids=None):
        """fresh_ids: a list used as counter - every observer instance gets its own id (observers are single-use)."""
        from uberjob.progress import Progress, ProgressObserver

        class Recorder(ProgressObserver):
            def __init__(self_):
                nonlocal rid
                if fresh_ids is not None:
                    fresh_ids.append(len(fresh_ids))
                    self_.rid = (rid_base, fresh_ids[-1])
                else:
                    self_.rid = rid_base

            def __enter__(self_):
                rid = self_.rid
                s.log("obsid", rid, "enter")
                e1.hpoint("obs.enter")
                if fail_enter:
                    s.log("obsid", rid, "enter-raised")
                    raise ObserverStartError(f"observer {rid} cannot start")

            def __exit__(self_, et, ev, tb):
                s.log("obsid", self_.rid, "exit", getattr(et, "__name__", None))
                e1.hpoint("obs.exit")

            def increment_total(self_, *, section, scope, amount):
                s.log("obsid", self_.rid, "total", section, scope, amount)

            def increment_running(self_, *, section, scope):
                s.log("obsid", self_.rid, "running", section, scope)
                e1.hpoint("obs.running")

            def increment_completed(self_, *, section, scope):
                s.log("obsid", self_.rid, "completed", section, scope)
                e1.hpoint("obs.completed")

            def increment_failed(self_, *, section, scope, exception):
                s.log("obsid", self_.rid, "failed", section, scope, type(exception).__name__)
                e1.hpoint("obs.failed")

        rid_base = rid
        return Progress(Recorder)

    def run_kwargs(self):
        kw = super().run_kwargs()
        if self.registry is not None:
            kw["registry"] = self.registry
        tr = self.cfg.get("transform")
        if tr:
            harness = self

            def extra_fn():
                s_ = e1.sched()
                s_.log("xstart", "extra")
                return "extra"
            extra_fn.__name__ = extra_fn.__qualname__ = "extra_fn"
            from uberjob._util import fully_qualified_name as _fqn
            self.extra_scope = ("added-by-transform", _fqn(extra_fn))

            def tp(p, o):
                # a user transformation: one more call in its own scope; 'copy' returns a NEW Plan object, 'inplace' edits the given one
                q = p.copy() if tr == "copy" else p
                with q.scope("added-by-transform"):
                    extra = q.call(extra_fn)
                if o is not None:
                    q.add_dependency(extra, o)
                return q, o
            kw["transform_physical"] = tp
        ob = self.cfg["observer"]
        if ob == "reuse-composite":
            kw["progress"] = self.reused_progress
        elif ob.startswith("list"):
            # progress given as a list of members (coerced to a composite); optionally one member fails to start
            s = e1.sched()
            k = int(ob[4]) if len(ob) > 4 and ob[4].isdigit() else 3
            bad = int(ob.split("fail")[1]) if "fail" in ob else None
            kw["progress"] = [self.make_recorder_id(s, r, fail_enter=(r == bad)) for r in range(k)]
        return kw

    def body(self, ctx):
        if self.cfg["observer"] == "reuse-composite":
            # ONE explicitly built composite Progress used for two runs: every run must get its own observers
            from uberjob.progress import composite_progress

            s = e1.sched()
            ids = []
            self.reused_progress = composite_progress(self.make_recorder_id(s, "A", fresh_ids=ids), self.make_recorder_id(s, "B", fresh_ids=ids))
            s.log("RUN", 1)
            try:
                super().body(ctx)
                s.log("RUN1", "ret")
            except BaseException as e:  # noqa
                if isinstance(e, e1.Abort):
                    raise
                s.log("RUN1", "exc", e)
            s.log("RUN", 2)
        return super().body(ctx)

    def check(self, x):
        s = x.sched
        ev = s.events
        mr = s.main_result
        msgs = [(t, m) for t, m in self.check_common(x) if t == "C07"]
        order = tuple(e[1] for e in ev if e[0] == "start")
        okey = (x.status, order, mr and mr[0])
        if x.status != "ok":
            return msgs, okey
        if self.cfg["observer"] == "reuse-composite":
            k = next(i for i, e in enumerate(ev) if e == ("RUN", 2))
            r1 = next(e for e in ev if e[0] == "RUN1")
            bad = self.check_members(ev[:k], ("ret", None) if r1[1] == "ret" else ("exc", r1[2]), strict_result=False)
            msgs = [(t, m) for t, m in msgs if "after run returned" not in m]  # two runs in one execution
            ids1 = {e[1] for e in ev[:k] if e[0] == "obsid"}
            ids2 = {e[1] for e in ev[k:] if e[0] == "obsid"}
            if ids1 & ids2:
                msgs.append(("C15", f"observers are single-use, but the observer instances {sorted(ids1 & ids2)} of the first run were entered again and notified by the second run of the same composite Progress"))
            return msgs + [(t, "first run with a reused composite Progress: " + m) for t, m in bad] + \
                [(t, "second run with the same composite Progress: " + m) for t, m in self.check_members(ev[k:], mr)], okey
        if self.cfg["observer"].startswith("list"):
            return msgs + self.check_members(ev, mr), okey
        obs = [e[1:] for e in ev if e[0] == "obs"]
        nobs = 2 if self.cfg["observer"] == "rec2" else 1
        streams = split_streams(obs, nobs)
        if streams is None:
            msgs.append(("C15", f"composite observer: the {nobs} members did not receive identical notification sequences"))
            return msgs, okey
        seq = streams[0]
        ok_run = mr[0] == "ret"
        only_exc = all(k in ("exc", "callerror") for k in self.fail.values())
        msgs += [("C15", m) for m in automaton(seq, ok_run, only_exc, type(mr[1]).__name__ if mr[0] == "exc" else None)]
        if ok_run:
            # independent count: 'run' total of a user scope == number of user calls executed with that scope
            started = {}
            for e in ev:
                if e[0] in ("start", "xstart"):
                    sc = self.extra_scope if e[0] == "xstart" else self.user_scope[e[1]]
                    started[sc] = started.get(sc, 0) + 1
            totals = {}
            for e in seq:
                if e[0] == "total":
                    totals[(e[1], e[2])] = totals.get((e[1], e[2]), 0) + e[3]
            for sc, n in started.items():
                if totals.get(("run", sc), 0) != n:
                    msgs.append(("C15", f"'run' total for scope {sc} is {totals.get(('run', sc), 0)} but {n} call(s) with that scope were executed"))
            for (sec, sc), n in totals.items():
                if sec == "run" and sc in set(self.user_scope.values()) and sc not in started and n:
                    msgs.append(("C15", f"'run' total announces {n} call(s) for scope {sc} but none was executed"))
            if self.registry is not None:
                examined = len(self.calls) + self.output_gather_calls()
                st = sum(n for (sec, sc), n in totals.items() if sec == "stale")
                if st != examined:
                    msgs.append(("C15", f"'stale' totals add up to {st}, but {examined} calls are examined"))
            elif any(sec == "stale" for sec, _ in totals):
                msgs.append(("C15", "'stale' totals announced although no registry was given"))
        return msgs, okey

    def check_members(self, ev, mr, strict_result=True):
        """progress=[m0, m1, ...]: every member that was entered is exited exactly once, after everything else it
        received; all members that started receive identical notifications; a member failing to start fails the run."""
        msgs = []
        per = {}
        for e in ev:
            if e[0] == "obsid":
                per.setdefault(e[1], []).append(e[2:])
        bad = [r for r, seq in per.items() if ("enter-raised",) in seq]
        ok_run = mr[0] == "ret"
        only_exc = all(k in ("exc", "callerror") for k in self.fail.values())
        for r, seq in sorted(per.items()):
            if r in bad:
                continue  # its __enter__ raised: it was never started, so it owes (and is owed) nothing
            for m in automaton(seq, ok_run, only_exc, type(mr[1]).__name__ if mr[0] == "exc" else None):
                msgs.append(("C15", f"member {r} of progress=[...]: {m}"))
        good = [seq for r, seq in sorted(per.items()) if r not in bad]
        if bad:
            if ok_run or not isinstance(mr[1], ObserverStartError):
                msgs.append(("C15", f"observer member {bad} failed to start but run gave {mr[0]} {mr[1]!r}"))
            if any(e[0] == "start" for e in ev):
                msgs.append(("C15", "calls were executed although an observer failed to start"))
        else:
            for seq in good[1:]:
                if seq != good[0]:
                    msgs.append(("C15", "members of progress=[...] did not receive identical notification sequences"))
                    break
        return msgs

    def output_gather_calls(self):
        """Number of gather calls run() adds for the output specification (containers that hold nodes)."""
        def count(o):
            if isinstance(o, dict):
                sub = sum(count(k) + count(v) for k, v in o.items())
                return sub + 1 + len(o) if _has_node(o) else 0  # dict gathers each item as a tuple
            if isinstance(o, (list, tuple, set)):
                sub = sum(count(c) for c in o)
                return sub + 1 if _has_node(o) else 0
            return 0
        return count(self.output) if self.output is not None else 0


def _has_node(o):
    from uberjob.graph import Node

    if isinstance(o, Node):
        return True
    if isinstance(o, dict):
        return any(_has_node(k) or _has_node(v) for k, v in o.items())
    if isinstance(o, (list, tuple, set)):
        return any(_has_node(c) for c in o)
    return False


def split_streams(obs, n):
    """A composite of n recorders logs every notification n times in a row (enter: in order; exit: reverse order)."""
    if n == 1:
        return [obs]
    if len(obs) % n:
        return None
    out = [[] for _ in range(n)]
    for i in range(0, len(obs), n):
        grp = obs[i:i + n]
        if any(g != grp[0] for g in grp):
            return None
        for k in range(n):
            out[k].append(grp[k])
    return out


def automaton(seq, ok_run, only_exc, exc_name):
    msgs = []
    if not seq or seq[0][0] != "enter":
        msgs.append(f"first notification is {seq[0] if seq else None}, not __enter__")
    exits = [i for i, e in enumerate(seq) if e[0] == "exit"]
    if len(exits) != 1:
        msgs.append(f"__exit__ called {len(exits)} times")
    elif exits[0] != len(seq) - 1:
        msgs.append(f"__exit__ is not the last notification ({len(seq) - 1 - exits[0]} notifications follow it: {seq[exits[0] + 1:][:3]})")
    else:
        et = seq[exits[0]][1]
        if ok_run and et is not None:
            msgs.append(f"run succeeded but __exit__ received exception type {et}")
        if not ok_run and et is None:
            msgs.append(f"run raised {exc_name} but __exit__ received no exception")
    if sum(1 for e in seq if e[0] == "enter") != 1:
        msgs.append("__enter__ called more than once")
    total, running, done = {}, {}, {}
    for e in seq:
        k = e[0]
        if k in ("enter", "exit"):
            continue
        key = (e[1], e[2])
        if k == "total":
            if running.get(key) or done.get(key):
                msgs.append(f"total for {key} announced after something in it was already reported running")
            total[key] = total.get(key, 0) + e[3]
        elif k == "running":
            if key not in total:
                msgs.append(f"'running' reported for {key} before its total was announced")
            running[key] = running.get(key, 0) + 1
        elif k in ("completed", "failed"):
            if running.get(key, 0) <= 0:
                msgs.append(f"'{k}' reported for {key} with nothing running there")
            running[key] = running.get(key, 0) - 1
            done[key] = done.get(key, 0) + (1 if k == "completed" else 0)
        if sum(done.get(key, 0) for key in [key]) + running.get(key, 0) > total.get(key, 0) and k != "total":
            msgs.append(f"more entries reported in {key} than its announced total {total.get(key, 0)}")
    if only_exc:
        left = {k: v for k, v in running.items() if v}
        if left:
            msgs.append(f"still reported running when run returned: {left}")
    if ok_run:
        for key, n in total.items():
            if done.get(key, 0) != n:
                msgs.append(f"after a successful run completed={done.get(key, 0)} but total={n} for {key}")
    return msgs[:6]


SHAPES = [
    # (n, edges, scopes, fname, output)
    (3, [(0, 1, "p"), (0, 2, "p")], {"0": ["a"], "1": ["a", 1], "2": ["a", 1]}, {"1": "same", "2": "same"}, [1, 2]),
    (3, [(0, 2, "p"), (1, 2, "k")], {"0": ["x"], "1": ["x"], "2": []}, {"0": "same", "1": "same"}, "nested"),
    (3, [(0, 1, "d"), (1, 2, "la")], {"2": ["z", None]}, {}, 2),
    (2, [], {}, {}, None),
    (4, [(0, 2, "p"), (1, 2, "p"), (2, 3, "p")], {"0": ["s"], "1": ["s"], "3": ["t"]}, {"0": "g", "1": "g"}, [3]),
]
FAILS = [None, {"0": "exc"}, {"1": "exc"}, {"0": "exc", "1": "exc"}, {"1": "base"}, {"2": "sysexit"}, {"0": "callerror"}, {"1": "callerror", "0": "exc"}]


def cfgs(tier, W):
    out = []
    shapes = SHAPES[:4] if tier == "quick" else SHAPES
    for si, ((n, edges, scopes, fname, output), fp) in enumerate(itertools.product(shapes, FAILS)):
        if fp and any(int(k) >= n for k in fp):
            continue
        mes = (0,) if not fp else ((0, None) if (tier == "quick" and len(fp) < 2) else (0, 1, None))
        for me in mes:
            stored_opts = [None, {"0": "missing", str(n - 1): "missing"}, {"0": "fresh", str(n - 1): "missing"}]
            if tier == "quick" and W == 2:
                stored_opts = [None, stored_opts[1 + si % 2]]
            for stored in stored_opts:
                if W == 1 and stored is None and me == 0 and not fp:
                    for tr in ("copy", "inplace"):
                        out.append({"n": n, "edges": edges, "scopes": scopes, "fname": fname, "output": output, "W": W, "sched": "default",
                                    "fail": None, "max_errors": 0, "stored": None, "observer": "rec", "transform": tr})
                obs_opts = ("rec", "rec2") if (W == 1 or tier != "quick") else ("rec",)
                if W == 1 and stored is None and (me == 0 or tier != "quick"):
                    obs_opts += ("list3", "list3fail1", "list3fail2", "list2fail0", "reuse-composite")
                for obs in obs_opts:
                    if stored and obs == "rec2" and tier == "quick":
                        continue
                    out.append({"n": n, "edges": edges, "scopes": scopes, "fname": fname, "output": output, "W": W,
                                "sched": "default" if (W == 1 or len(out) % 2) else "random", "fail": fp, "max_errors": me,
                                "stored": stored, "observer": obs})
    return out


def explorations(tier):
    if tier == "quick":
        return [("api plans x scopes x faults x registry x observers, W=1, <= 1 preemption", FACTORY, cfgs(tier, 1), {"preempt": 1, "random": 1, "yield": 1}),
                ("same, W=2, <= 1 preemption, <= 1 non-default choice at blocking points", FACTORY, cfgs(tier, 2), {"preempt": 1, "random": 1, "yield": 1})]
    w2 = [c for c in cfgs(tier, 2) if c["observer"] == "rec"]
    return [("api plans x scopes x faults x registry x observers, W=1, b<=1", FACTORY, cfgs(tier, 1), {"preempt": 1, "random": 1, "yield": 2}),
            ("same, W=2, single recorder, b<=1 (yield<=2)", FACTORY, w2, {"preempt": 1, "random": 1, "yield": 2}),
            ("quick-tier W=2 configurations, b<=2 (yield<=1)", FACTORY, cfgs("quick", 2), {"preempt": 2, "random": 1, "yield": 1})]


def run(tier):
    return e1prop.run(PROP, explorations(tier))


def replay(rep):
    return e1prop.replay(PROP, rep)
