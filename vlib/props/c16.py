"""C16 - intermediate results are released as soon as their last consumer has finished.

E1: every call returns a fresh weak-referenceable object; a recording observer's `completed`
notification marks the moment the engine-side processing of a call (including the drop of its bound
arguments) is over.  At every call start and every completed notification, in every explored
schedule, each result whose producer and all needed consumers are completed - and which is not part
of the requested output - must be dead after gc.collect(); output results must be alive at return.
"""
import gc
import weakref

from .. import e1, e1prop, engine, planh

PROP = "C16"
FACTORY = "vlib.props.c16:LeakHarness"


class Res:
    """A call result that references nothing."""

    __slots__ = ("i", "__weakref__")

    def __init__(self, i):
        self.i = i

    def __repr__(self):
        return f"Res{self.i}"


class LeakHarness(planh.PlanHarness):
    def __init__(self, cfg):
        cfg = dict(cfg)
        cfg["observer"] = "rec"
        super().__init__(cfg)
        from uberjob._util import fully_qualified_name

        self.scope_to_i = {(*c.scope, fully_qualified_name(c.fn)): i for i, c in enumerate(self.calls)}
        # argument consumers that the requested output needs
        self.consumers = {i: set() for i in range(self.n)}
        for (i, j, kind) in [tuple(e) for e in cfg["edges"]]:
            if kind in ("p", "k", "pd") and j in self.needed_closure:
                self.consumers[i].add(j)
        self.out_set = set(self.needed)
        self.with_registry = bool(cfg.get("stored"))
        self.registry = None
        if self.with_registry:
            import uberjob

            harness = self

            class St(uberjob.ValueStore):
                """keeps no reference to what was written: read returns a fresh object"""

                def __init__(self, i):
                    self.i = i

                def read(self):
                    r = Res(("read", self.i))
                    harness.extra_refs.append(weakref.ref(r))
                    return r

                def write(self, v):
                    harness.written.add(self.i)

                def get_modified_time(self):
                    return None

            self.registry = uberjob.Registry()
            for i in cfg["stored"]:
                self.registry.add(self.calls[i], St(i))

    def _make_fn(self, i):
        harness = self
        if str(i) in (self.cfg.get("cfail") or []) or i in (self.cfg.get("cfail") or []):
            # a consumer implemented in C that fails: no Python frame of the callee ends up in the traceback
            import operator
            return operator.neg

        def f(*args, **kwargs):
            s = e1.sched()
            s.log("start", i)
            if harness.cfg["W"] == 1:
                # one worker: when a call starts, the engine-side processing of every earlier call is over
                # (a further attempt of the same call under retry is still that call)
                s.ctx["completed"].update(x for x in s.ctx["started"] if x != i)
                s.ctx["completed"].update(s.ctx["failed_seen"])
            s.ctx["started"].append(i)
            harness.audit(s, ("start", i))
            e1.hpoint(("call", i))
            flaky = (harness.cfg.get("flaky") or {}).get(str(i), 0)
            if flaky:
                k = s.ctx["attempts"].get(i, 0)
                s.ctx["attempts"][i] = k + 1
                if k < flaky:
                    s.log("flaky", i, k)
                    raise engine.Boom(f"transient failure {k} of c{i}")
            if i in harness.fail:
                ex = engine.make_exc(harness.fail[i], f"c{i}")
                if s.ctx["first_failed"] is None:
                    s.ctx["first_failed"] = i
                s.log("raise", i)
                raise ex
            r = Res(i)
            s.ctx["wr"][i] = weakref.ref(r)
            s.log("end", i)
            return r

        f.__name__ = f.__qualname__ = f"f{i}"
        return f

    def setup(self, s):
        ctx = super().setup(s)
        ctx["wr"] = {}
        ctx["completed"] = set()
        ctx["started"] = []
        ctx["first_failed"] = None
        ctx["failed_seen"] = set()
        ctx["attempts"] = {}
        self.extra_refs = []
        self.written = set()
        return ctx

    def make_recorder(self, s):
        from uberjob.progress import Progress, ProgressObserver

        harness = self

        class Recorder(ProgressObserver):
            def __enter__(self_):
                pass

            def __exit__(self_, et, ev, tb):
                pass

            def increment_total(self_, *, section, scope, amount):
                pass

            def increment_running(self_, *, section, scope):
                pass

            def increment_completed(self_, *, section, scope):
                if section == "run" and scope in harness.scope_to_i:
                    i = harness.scope_to_i[scope]
                    s.ctx["completed"].add(i)
                    harness.audit(s, ("completed", i))
                    e1.hpoint(("obs.completed", i))

            def increment_failed(self_, *, section, scope, exception):
                if section == "run" and scope in harness.scope_to_i:
                    s.ctx["failed_seen"].add(harness.scope_to_i[scope])

        return Progress(Recorder)

    def run_kwargs(self):
        kw = super().run_kwargs()
        if self.registry is not None:
            kw["registry"] = self.registry
        r = self.cfg.get("retry")
        if r == "stateful":
            class AttemptLog:
                """a user retry decorator with per-decoration state: remembers the failed attempts of the call it wraps"""

                def __init__(self, f):
                    self.f, self.failures = f, []

                def __call__(self, *a, **k):
                    for _ in range(3):
                        try:
                            return self.f(*a, **k)
                        except Exception as e:  # noqa
                            self.failures.append(e)
                    raise self.failures[-1]

            kw["retry"] = AttemptLog
        elif r:
            kw["retry"] = r
        return kw

    def audit(self, s, where):
        ctx = s.ctx
        done = ctx["completed"]
        must_be_dead = []
        for i, wr in ctx["wr"].items():
            if i in self.out_set and not self.with_registry:
                continue
            if i not in done:
                continue
            if self.with_registry and i in (self.cfg.get("stored") or []):
                # the in-memory result of a stored call is consumed only by its write (then read back):
                # it must die once the write happened and the call is completed
                if i not in self.written:
                    continue
                must_be_dead.append(i)
                continue
            if all(j in done for j in self.consumers[i]):
                must_be_dead.append(i)
        if not must_be_dead:
            return
        alive = [i for i in must_be_dead if ctx["wr"][i]() is not None]
        if alive:
            gc.collect()
            alive = [i for i in alive if ctx["wr"][i]() is not None]
        ff = ctx["first_failed"]
        for i in alive:
            pinned = ff is not None and ff in self.consumers[i]
            s.log("leak", i, where, "first-error" if pinned else "")

    def body(self, ctx):
        r = super().body(ctx)
        s = e1.sched()
        # output results must be alive at return (they are what was returned)
        if not self.with_registry:
            for i in self.out_set:
                wr = ctx["wr"].get(i)
                if wr is not None and wr() is None:
                    s.log("outdead", i)
        ctx["ret"] = None
        return None if r is None else "returned"

    def check(self, x):
        s = x.sched
        msgs = [(t, m) for t, m in self.check_common_light(x)]
        leaks = {}
        for e in s.events:
            if e[0] == "leak":
                if e[3] == "first-error":
                    msgs.append(("C16F", f"[first-error-pins] result of call {e[1]} is still referenced at {e[2]} although every call consuming it has finished: "
                                        f"its consumer {s.ctx['first_failed']} was the first call to fail, and the retained first error (traceback -> frames) keeps its arguments alive until the run ends"))
                    continue
                leaks.setdefault(e[1], e[2])
            elif e[0] == "outdead":
                msgs.append(("C16", f"result of call {e[1]} is part of the requested output but was dead when run returned"))
        for i, where in leaks.items():
            msgs.append(("C16", f"result of call {i} is still referenced at {where} although its producer and all its consumers {sorted(self.consumers[i])} are completed and it is not part of the output"))
        order = tuple(e[1] for e in s.events if e[0] == "start")
        return msgs, (x.status, order)

    def check_common_light(self, x):
        s = x.sched
        if x.status == "deadlock":
            yield ("C07", f"deadlock: {s.deadlock_info}")
        elif x.status == "horizon":
            yield ("C07", "horizon exceeded")
        if s.uncaught:
            yield ("C07", f"uncaught exception in a thread: {s.uncaught}")
        mr = s.main_result
        if mr and mr[0] == "exc" and not self.fail and not self.cfg.get("cfail"):
            yield ("C16", f"run raised {mr[1]!r}")


# the graph shapes of tests/test_scheduler.py (as argument edges)
SCHED_SHAPES = {
    "chain": (4, [(0, 1), (1, 2), (2, 3)]),
    "fork": (4, [(0, 1), (0, 2), (0, 3)]),
    "join": (4, [(0, 3), (1, 3), (2, 3)]),
    "criss-cross": (4, [(0, 2), (0, 3), (1, 2), (1, 3)]),
    "zipper": (5, [(0, 1), (1, 2), (0, 3), (3, 4), (1, 4)]),
    "many-to-one": (5, [(0, 4), (1, 4), (2, 4), (3, 4)]),
    "diamond-tail": (5, [(0, 1), (0, 2), (1, 3), (2, 3), (3, 4)]),
}


def cfgs(tier, W):
    graphs = []
    for edges in engine.dags(3):
        graphs.append((3, edges))
    if tier != "quick" or W == 1:
        for edges in engine.dags(4):
            graphs.append((4, edges))
    for name, (n, edges) in SCHED_SHAPES.items():
        graphs.append((n, edges))
    for gi, (n, edges) in enumerate(graphs):
        # argument, keyword and plain-dependency edges (a call that is only depended upon has no consumer at all)
        kedges = [(i, j, ("p", "k", "d")[(i + j + gi) % 3] if gi % 2 else ("p" if (i + j + gi) % 3 else "k")) for i, j in edges]
        sinks = [i for i in range(n) if not any(e[0] == i for e in edges)]
        outs = [None, n - 1, sinks] if sinks != [n - 1] else [None, n - 1]
        for out in outs:
            for sc in (("default", "random") if (tier != "quick" or gi % 4 == 0) else ("default",)):
                yield {"n": n, "edges": kedges, "output": out, "W": W, "sched": sc}
        # registry variant: first and last node stored
        if gi % (2 if tier != "quick" else 5) == 0:
            yield {"n": n, "edges": kedges, "output": n - 1, "W": W, "sched": "default", "stored": [0, n - 1]}


def fault_cfgs(tier):
    """W=1, max_errors=None: consumers fail (Exception / BaseException / SystemExit); producers succeed."""
    # every shape ends with independent calls, so that in some pop orders work continues after the failures
    shapes = [(5, [(0, 2), (1, 3)]), (5, [(0, 1), (0, 2), (0, 3)]), (6, [(0, 3), (1, 3), (1, 4), (2, 4)]), (6, [(0, 1), (2, 3)])]
    kinds = ["exc", "base", "sysexit"]
    for n, edges in shapes:
        consumers = sorted({j for _, j in edges})
        for r in (1, 2):
            import itertools
            for fs in itertools.combinations(consumers, r):
                for ks in itertools.product(kinds, repeat=r):
                    for sc in ("default", "random"):
                        yield {"n": n, "edges": [(i, j, "p") for i, j in edges], "output": [i for i in range(n) if any(e[1] == i for e in edges) or not any(e[0] == i for e in edges)], "W": 1, "sched": sc,
                               "fail": {str(f): k for f, k in zip(fs, ks)}, "max_errors": None}


def retry_cfgs(tier):
    """Calls that fail transiently and succeed on a later attempt (built-in retry=2/3 and a user decorator that
    remembers failed attempts per decoration): the failed attempts' exceptions hold frames that hold the
    arguments, and nothing of uberjob may keep them once the call has finished."""
    shapes = [(4, [(0, 1), (1, 2), (2, 3)]), (5, [(0, 1), (0, 2), (1, 3), (2, 3), (3, 4)]), (5, [(0, 2), (1, 3), (2, 4), (3, 4)])]
    for n, edges in shapes:
        consumers = sorted({j for _, j in edges})[:2]
        for r in (2, 3, "stateful"):
            for fl in ([consumers[0]], consumers):
                for k in ((1, 2) if r != 2 else (1,)):
                    for sc in ("default", "random"):
                        yield {"n": n, "edges": [(i, j, "p") for i, j in edges], "output": n - 1, "W": 1, "sched": sc,
                               "retry": r, "flaky": {str(i): k for i in fl}, "fail": {}}


def cfail_cfgs(tier):
    """A consumer implemented in C (operator.neg on a result object) fails: its traceback holds no frame of the callee,
    so even when it is the FIRST failure nothing may keep its argument alive once it has finished."""
    shapes = [(4, [(0, 1)]), (5, [(0, 2), (1, 3)]), (5, [(0, 1), (0, 2)])]
    for n, edges in shapes:
        consumers = sorted({j for _, j in edges})
        for k in range(1, len(consumers) + 1):
            fs = consumers[:k]
            for sc in ("default", "random"):
                yield {"n": n, "edges": [(i, j, "p") for i, j in edges], "output": [i for i in range(n) if not any(e[0] == i for e in edges)],
                       "W": 1, "sched": sc, "cfail": fs, "fail": {}, "max_errors": None,
                       "scopes": {str(i): ["n", i] for i in range(n)}}  # unique scopes: both consumers are operator.neg


def explorations(tier):
    if tier == "quick":
        return [("G3+G4+scheduler-test shapes, W=1, <=1 preemption, random draws enumerated (<=2 deviations)", FACTORY, list(cfgs(tier, 1)), {"preempt": 1, "random": 2, "yield": 1}),
                ("G3+scheduler-test shapes, W=2, <=1 preemption", FACTORY, list(cfgs(tier, 2)), {"preempt": 1, "random": 1, "yield": 1}),
                ("failing consumers (Exception/BaseException/SystemExit), max_errors=None, W=1", FACTORY, [c for c in fault_cfgs(tier) if c["sched"] == "random" or len(c["fail"]) == 1], {"preempt": 0}),
                ("failing consumers implemented in C, max_errors=None, W=1, every pop order", FACTORY, list(cfail_cfgs(tier)), {"preempt": 0}),
                ("transiently failing consumers under retry=2/3 and a stateful user retry decorator, W=1, every pop order", FACTORY, list(retry_cfgs(tier)), {"preempt": 0})]
    return [("G3+G4+shapes, W=1, <=1 preemption, all random draws", FACTORY, list(cfgs(tier, 1)), {"preempt": 1}),
            ("G3+G4+shapes, W=2, <=2 preemptions", FACTORY, list(cfgs(tier, 2)), {"preempt": 2, "random": 1, "yield": 2}),
            ("failing consumers (Exception/BaseException/SystemExit), max_errors=None, W=1", FACTORY, list(fault_cfgs(tier)), {"preempt": 1}),
            ("failing consumers implemented in C, max_errors=None, W=1, every pop order", FACTORY, list(cfail_cfgs(tier)), {"preempt": 1}),
            ("transiently failing consumers under retry=2/3 and a stateful user retry decorator, W=1, every pop order", FACTORY, list(retry_cfgs(tier)), {"preempt": 1})]


def run(tier):
    # the known-finding class has its own tag so that it cannot crowd other C16 counterexamples out of the per-tag quota
    res = e1prop.run(PROP, explorations(tier), accept_tags={"C16F"})
    for v in res["violations"]:
        if "[first-error-pins]" in v.message:
            kind = "BaseException" if any(k in v.key for k in ('"base"', '"sysexit"')) and '"exc"' not in v.key.split("::")[0] else "Exception"
            v.key = "first failing consumer keeps its arguments alive until the run ends"
    return res


def replay(rep):
    return e1prop.replay(PROP, rep, accept_tags={"C16F"})
