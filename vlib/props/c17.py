"""C17 - Ctrl-C during a run stops new work, waits for in-flight calls and cleans up.

E1 with one asynchronous KeyboardInterrupt injected into the calling thread at
every scheduling point at which at least one call is in flight - blocked in
queue.join(), inside the worker-pool creation loop (every instruction of that
code is a point), or anywhere in between.
"""
import os

from .. import common, e1, e1prop, e1run, engine, planh
from ..e1prop import PLAN

PROP = "C17"
FACTORY = "vlib.props.c17:C17Harness"


def _in_flight(s):
    ctx = s.ctx
    return ctx is not None and ctx.get("inflight", 0) > 0


class C17Harness(planh.PlanHarness):
    int_pred = staticmethod(_in_flight)

    def __init__(self, cfg):
        super().__init__(cfg)
        self.bc = True
        self.orig_create_queue = self.rfg.create_queue

    def _make_fn(self, i):
        fail = self.fail

        def f(*args, **kwargs):
            s = e1.sched()
            s.log("start", i)
            s.ctx["inflight"] += 1
            try:
                e1.hpoint(("call", i))
                if i in fail:
                    ex = engine.make_exc(fail[i], f"c{i}")
                    s.ctx["raised"][i] = ex
                    s.log("raise", i)
                    raise ex
            finally:
                s.ctx["inflight"] -= 1
            s.log("end", i)
            v = planh.Val(i, (), ())
            s.ctx["vals"][i] = v
            return v

        f.__name__ = f.__qualname__ = f"f{i}"
        return f

    def setup(self, s):
        ctx = super().setup(s)
        ctx["inflight"] = 0
        orig = self.orig_create_queue
        index = self.index

        def create_queue(graph, initial, scheduler):
            q = orig(graph, initial, scheduler)
            get = q.get

            def logged_get(*a, **k):
                item = get(*a, **k)
                s.log("deq", index.get(item, "-"))
                return item

            q.get = logged_get
            return q

        self.rfg.create_queue = create_queue
        return ctx

    def body(self, ctx):
        try:
            return super().body(ctx)
        finally:
            self.rfg.create_queue = self.orig_create_queue

    def check(self, x):
        s = x.sched
        ev = s.events
        msgs = [(t, m) for t, m in self.check_common(x) if t == "C07"]
        ia = s.interrupted_at
        mr = s.main_result
        okey = (x.status, ia is not None, tuple(e[1] for e in ev if e[0] == "start"), mr and mr[0],
                type(mr[1]).__name__ if mr and mr[0] == "exc" else None)
        if ia is None:
            return msgs, okey
        out = []
        for t, m in msgs:
            out.append(("C17", "after KeyboardInterrupt: " + m))
        if x.status != "ok":
            return out, okey
        if not (mr[0] == "exc" and isinstance(mr[1], KeyboardInterrupt)):
            out.append(("C17", f"KeyboardInterrupt did not propagate to the caller: run gave {mr[0]} {type(mr[1]).__name__}"))
        # observer
        if self.cfg.get("observer"):
            exits = [e for e in ev if e[0] == "obs" and e[1] == "exit"]
            enters = [e for e in ev if e[0] == "obs" and e[1] == "enter"]
            nobs = 2 if self.cfg["observer"] == "rec2" else 1
            if enters and len(exits) != nobs * (len(enters) // nobs):
                out.append(("C17", f"progress observer entered {len(enters)}x but exited {len(exits)}x"))
        # in-flight calls at t_I must end (or raise by themselves)
        started, finished = [], set()
        for e in ev[:ia]:
            if e[0] == "start":
                started.append(e[1])
            elif e[0] in ("end", "raise"):
                finished.add(e[1])
        inflight = [i for i in started if i not in finished]
        later_done = {e[1] for e in ev[ia:] if e[0] in ("end", "raise")}
        for i in inflight:
            if i not in later_done:
                out.append(("C17", f"call {i} was in flight at the interrupt but never completed"))
        # dequeue bookkeeping
        tj = next((k for k in range(ia, len(ev)) if ev[k][0] == "JOIN_BEGIN"), None)
        deq_before_i = {e[1] for e in ev[:ia] if e[0] == "deq"}
        for k in range(ia, len(ev)):
            e = ev[k]
            if e[0] != "start":
                continue
            i = e[1]
            if tj is not None and k > tj:
                deq_before_j = {q[1] for q in ev[:tj] if q[0] == "deq"}
                if i not in deq_before_j:
                    out.append(("C17", f"call {i} was taken from the queue and started after the caller had begun joining the workers"))
            if not s.main_starved and i not in deq_before_i:
                out.append(("C17", f"call {i} was dequeued and started after the interrupt although the calling thread ran whenever it could"))
        return out, okey


def cfgs(tier):
    shapes = {
        "indep3": (3, []),
        "chain3": (3, [(0, 1, "p"), (1, 2, "p")]),
        "fan": (3, [(0, 1, "p"), (0, 2, "p")]),
        "join": (3, [(0, 2, "p"), (1, 2, "d")]),
        "indep4": (4, []),
        "diamond": (4, [(0, 1, "p"), (0, 2, "p"), (1, 3, "p"), (2, 3, "p")]),
    }
    out = []
    if tier == "quick":
        sel = [("indep3", [1, 2]), ("chain3", [1, 2]), ("fan", [2]), ("join", [2])]
    else:
        sel = [(k, [1, 2, 3]) for k in shapes]
    for name, Ws in sel:
        n, edges = shapes[name]
        for W in Ws:
            for sc in ("default", "random"):
                for obs in ("rec",):
                    out.append({"n": n, "edges": edges, "output": list(range(n)), "W": W, "sched": sc,
                                "observer": obs, "shape": name})
    if tier == "quick":
        out = [c for c in out if not (c["sched"] == "random" and c["W"] > 1 and c["shape"] != "indep3")]
        out.append({"n": 3, "edges": [], "output": [0, 1, 2], "W": 3, "sched": "default", "observer": "rec", "shape": "indep3"})
    # only the LAST call requested: every other call has exactly one successor (no output gather fanning out of it)
    for W in ((1, 2) if tier == "quick" else (1, 2, 3)):
        out.append({"n": 3, "edges": [(0, 1, "p"), (1, 2, "p")], "output": 2, "W": W, "sched": "default", "observer": "rec", "shape": "chain3-last-only"})
        out.append({"n": 4, "edges": [(0, 1, "p"), (1, 2, "d"), (2, 3, "k")], "output": 3, "W": W, "sched": "random", "observer": "rec", "shape": "chain4-last-only"})
    # one failing call combined with the interrupt (error must not mask KeyboardInterrupt)
    for W in (1, 2):
        out.append({"n": 3, "edges": [], "output": [0, 1, 2], "W": W, "sched": "default", "observer": "rec",
                    "fail": {"0": "exc"}, "max_errors": None, "shape": "indep3-fail0"})
        out.append({"n": 3, "edges": [], "output": [0, 1, 2], "W": W, "sched": "default", "observer": "rec",
                    "fail": {"1": "exc"}, "max_errors": None, "shape": "indep3-fail1"})
    return out


def fail_release_cfgs(tier):
    """Two calls in flight at the interrupt: one fails afterwards (error budget not exhausted), the other
    completes and makes children ready.  With the 'random' queue a child can be popped before a sentinel,
    so the stop request itself must keep it from starting."""
    out = []
    for W in (2, 3):
        for fail in ({"0": "exc"}, {"0": "base"}, {"1": "exc"}):
            for me in (None, 1):
                if tier == "quick" and (W == 3 or me == 1) and fail != {"0": "exc"}:
                    continue
                out.append({"n": 4, "edges": [(1, 2, "p"), (1, 3, "d")], "output": [0, 1, 2, 3], "W": W, "sched": "random",
                            "observer": "rec", "fail": fail, "max_errors": me, "shape": "two-in-flight-one-fails-other-releases"})
    return out


# --------------------------------------------------------------------------
# conformance of the injected interrupt with a real SIGINT (unmodified threading, separate process)
# --------------------------------------------------------------------------

_SIGNAL_SCRIPT = r'''
import json, os, signal, sys, threading, time
import uberjob
N, K, W, SCHED = int(sys.argv[1]), int(sys.argv[2]), int(sys.argv[3]), sys.argv[4]
log = []
lock = threading.Lock()
def make(i):
    def f(*a):
        with lock:
            log.append(("start", i, time.monotonic()))
        if i == K:
            os.kill(os.getpid(), signal.SIGINT)   # Ctrl-C while this call (and maybe others) is in flight
        time.sleep(0.1)
        with lock:
            log.append(("end", i, time.monotonic()))
        return i
    f.__name__ = "f%d" % i
    return f
plan = uberjob.Plan()
calls = []
for i in range(N):
    # chains of 3 so that completed calls keep making new work ready
    calls.append(plan.call(make(i), *( [calls[i - 3]] if i >= 3 else [] )))
before = set(threading.enumerate())
res = "ret"
t0 = time.monotonic()
try:
    uberjob.run(plan, output=calls, max_workers=W, scheduler=SCHED, progress=None)
except KeyboardInterrupt:
    res = "KeyboardInterrupt"
except BaseException as e:
    res = "other:" + type(e).__name__
t1 = time.monotonic()
left = [t.name for t in threading.enumerate() if t not in before and t.is_alive()]
time.sleep(0.3)
with lock:
    late = [e for e in log if e[2] > t1]
    started = [e[1] for e in log if e[0] == "start"]
    ended = [e[1] for e in log if e[0] == "end"]
print(json.dumps({"res": res, "left": left, "late": len(late), "started": started, "ended": ended, "secs": t1 - t0}))
'''


def signal_conformance(tier):
    """Real SIGINT, real threads: only the timing-robust clauses are checked."""
    import json
    import subprocess
    import sys

    viols = []
    runs = 0
    # many more calls than can finish before the caller reacts, even on a loaded machine (0.1 s each)
    cases = [(30, 1, 2, "default"), (30, 4, 3, "default"), (30, 0, 1, "default"), (30, 5, 2, "random")]
    if tier != "quick":
        cases += [(36, k, W, sc) for k in (0, 2, 7) for W in (1, 2, 4) for sc in ("default", "random")]
    procs = []
    env = dict(os.environ, PYTHONPATH=common.SRC)
    for c in cases:
        procs.append((c, subprocess.Popen([sys.executable, "-c", _SIGNAL_SCRIPT] + [str(x) for x in c], stdout=subprocess.PIPE, stderr=subprocess.PIPE, env=env, text=True)))
    for c, p in procs:
        runs += 1
        key = f"real SIGINT N={c[0]} K={c[1]} W={c[2]} {c[3]}"
        try:
            out, err = p.communicate(timeout=60)
        except subprocess.TimeoutExpired:
            p.kill()
            viols.append(common.Violation(PROP, key + " :: hang", f"{key}: run did not terminate within 60 s after a real SIGINT", {"engine": "signal", "case": list(c)}))
            continue
        try:
            r = json.loads(out.strip().splitlines()[-1])
        except Exception:  # noqa
            viols.append(common.Violation(PROP, key + " :: crashed", f"{key}: subprocess failed: {err[-300:]}", {"engine": "signal", "case": list(c)}))
            continue
        msgs = []
        if r["res"] != "KeyboardInterrupt":
            msgs.append(f"run gave {r['res']} instead of KeyboardInterrupt")
        if r["left"]:
            msgs.append(f"threads still alive after run returned: {r['left']}")
        if r["late"]:
            msgs.append(f"{r['late']} call events happened after run returned")
        if set(r["started"]) != set(r["ended"]):
            msgs.append(f"calls {sorted(set(r['started']) - set(r['ended']))} were in flight and never finished")
        if len(r["started"]) >= c[0]:
            msgs.append("every remaining call was still run after the interrupt")
        for m in msgs:
            viols.append(common.Violation(PROP, key + " :: " + m[:40], f"{key}: {m}", {"engine": "signal", "case": list(c)}))
    return viols, {"real_signal_runs": runs}


def run(tier):
    engine.install_pool_bc_all()
    if tier == "quick":
        ex = [("interrupt at every point with a call in flight", FACTORY, cfgs(tier), {"preempt": 1, "interrupt": 1, "random": 1}),
              ("interrupt + a call failing after it + children becoming ready, random queue (<= 2 non-default draws)", FACTORY,
               fail_release_cfgs(tier), {"preempt": 0, "interrupt": 1, "random": 2, "yield": 2})]
    else:
        # budgets multiply: the wide family with <= 1 preemption, the three-call family with <= 2
        allc = cfgs(tier)
        wide = [c for c in allc if c["n"] == 3 or c["W"] <= 2]
        small = [c for c in allc if c["n"] == 3 and c["W"] == 2 and c["sched"] == "default" and not c.get("fail")]
        ex = [("interrupt + a call failing after it + children becoming ready, random queue (<= 2 non-default draws), no preemption", FACTORY,
               fail_release_cfgs(tier), {"preempt": 0, "interrupt": 1, "random": 2, "yield": 2}),
              ("interrupt at every point with a call in flight: all shapes, <= 1 preemption, <= 1 non-default choice at blocking points", FACTORY, wide, {"preempt": 1, "interrupt": 1, "random": 1, "yield": 1}),
              ("interrupt at every point with a call in flight: three-call shapes, 2 workers, <= 2 preemptions", FACTORY, small, {"preempt": 2, "interrupt": 1, "random": 1, "yield": 0}),
              ("interrupt + a call failing after it + children becoming ready, random queue, <= 1 preemption, <= 1 non-default draw", FACTORY,
               fail_release_cfgs(tier), {"preempt": 1, "interrupt": 1, "random": 1, "yield": 0})]
    sv, scov = signal_conformance(tier)
    res = e1prop.run(PROP, ex, extra_cov=scov, extra_viol=sv)
    return res


def replay(rep):
    if rep.get("engine") == "signal":
        v, _ = signal_conformance("thorough")
        return [x.message for x in v if x.replay["case"] == rep["case"]]
    engine.install_pool_bc_all()
    return e1prop.replay(PROP, rep)
