"""C18 - staleness depends only on the instants, not on time zone or naive/aware form.

E3 over configurations: process time zone x instants (including both occurrences of the repeated
hour of a DST fall-back) x the form in which each of fresh_time, t(upstream), t(downstream) is
given (naive local as datetime.fromtimestamp yields it, aware UTC, aware +09:00, aware in the
process zone).  Oracle: downstream is rebuilt  <=>  instant(D) < max(instant(U), instant(fresh_time)).
A second pass puts real JsonFileStores with os.utime in the loop.
"""
import datetime as dt
import itertools
import os
import shutil
import tempfile
import time

from .. import common

PROP = "C18"

ZONES = ["UTC", "America/New_York", "Europe/London", "Asia/Kolkata", "Asia/Kathmandu", "Pacific/Auckland"]
FORMS = ["naive-local", "aware-utc", "aware+09", "aware-zone"]

# fall-back transitions (second 01:30 / 02:30 local happens one hour after the first)
# New York 2021-11-07 06:00 UTC, London 2021-10-31 01:00 UTC, Auckland 2021-04-03 14:00 UTC
TRANSITION_UTC = {
    "America/New_York": dt.datetime(2021, 11, 7, 6, 0, tzinfo=dt.timezone.utc),
    "Europe/London": dt.datetime(2021, 10, 31, 1, 0, tzinfo=dt.timezone.utc),
    "Pacific/Auckland": dt.datetime(2021, 4, 3, 14, 0, tzinfo=dt.timezone.utc),
}


def instants(zone):
    """7 instants (POSIX seconds): around the zone's fall-back (or a fixed date), 20..50 min apart so
    that local wall-clock order and instant order disagree inside the repeated hour."""
    base = TRANSITION_UTC.get(zone, dt.datetime(2021, 11, 7, 6, 0, tzinfo=dt.timezone.utc)).timestamp()
    # -70m, -50m, -10m | +10m, +30m, +70m, +1 day   (relative to the transition)
    return [int(base + 60 * m) for m in (-70, -50, -10, 10, 30, 70, 24 * 60)]


def render(ts, form, zone):
    import zoneinfo

    if form == "naive-local":
        return dt.datetime.fromtimestamp(ts)  # what the bundled file stores produce (fold included)
    if form == "aware-utc":
        return dt.datetime.fromtimestamp(ts, dt.timezone.utc)
    if form == "aware+09":
        return dt.datetime.fromtimestamp(ts, dt.timezone(dt.timedelta(hours=9)))
    return dt.datetime.fromtimestamp(ts, zoneinfo.ZoneInfo(zone))


def _zone_task(payload):
    zone, tier = payload
    os.environ["TZ"] = zone
    time.tzset()
    import uberjob
    from uberjob import ValueStore

    class TStore(ValueStore):
        def __init__(self, t, v=None):
            self.t, self.v, self.writes = t, v, 0

        def read(self):
            return self.v

        def write(self, v):
            self.v = v
            self.writes += 1

        def get_modified_time(self):
            return self.t

    ins = instants(zone)
    fails = []
    n = 0
    outcomes = set()
    # the grid: tU, tD from all instants; fresh from {None} + instants; forms for each
    fresh_opts = [None] + ins
    for tU, tD in itertools.product(ins, repeat=2):
        for tF in fresh_opts:
            for fU, fD in itertools.product(FORMS, repeat=2):
                for fF in (FORMS if tF is not None else [None]):
                    n += 1
                    plan = uberjob.Plan()
                    reg = uberjob.Registry()
                    su = TStore(render(tU, fU, zone), 1)
                    u = reg.source(plan, su)
                    sd = TStore(render(tD, fD, zone), 0)
                    d = plan.call(lambda x: x + 1, u)
                    reg.add(d, sd)
                    fresh = None if tF is None else render(tF, fF, zone)
                    try:
                        uberjob.run(plan, registry=reg, fresh_time=fresh, max_workers=1, progress=None)
                    except Exception as e:  # noqa
                        fails.append(("raised", f"run raised {type(e).__name__}: {e.__cause__!r}", (zone, tU, fU, tD, fD, tF, fF)))
                        continue
                    rebuilt = sd.writes > 0
                    expect = tD < max(tU, tF if tF is not None else tU)
                    outcomes.add((rebuilt, expect))
                    if rebuilt != expect:
                        fails.append((_classify(zone, fU, fD, fF, tU, tD, tF, ins),
                                      f"downstream {'rebuilt' if rebuilt else 'NOT rebuilt'} but instant(D){'<' if expect else '>='}max(instant(U), instant(fresh)): "
                                      f"U={render(tU, fU, zone)!r} D={render(tD, fD, zone)!r} fresh={fresh!r}",
                                      (zone, tU, fU, tD, fD, tF, fF)))
    # ---- the same through longer paths: unstored calls between U and D (their "modified time" is the newest
    # ancestor's, handed on inside the stale check), and an up-to-date stored value M in between
    for tU, tD in itertools.product(ins, repeat=2):
        for fU, fD in itertools.product(FORMS, repeat=2):
            for shape in ("hop1", "hop2", "mid"):
                for k, tF in enumerate((None, ins[0], ins[3], ins[6])):
                    fF = None if tF is None else FORMS[(k + FORMS.index(fU) + FORMS.index(fD)) % 4]
                    n += 1
                    plan = uberjob.Plan()
                    reg = uberjob.Registry()
                    u = reg.source(plan, TStore(render(tU, fU, zone), 1))
                    x = u
                    sm = None
                    if shape == "mid":
                        # M was built exactly when U changed, reported in another form than U's
                        x = plan.call(lambda v: v, x)
                        sm = TStore(render(max(tU, tF or tU), FORMS[(FORMS.index(fU) + 1) % 4], zone), 1)
                        reg.add(x, sm)
                    else:
                        for _ in range(1 if shape == "hop1" else 2):
                            x = plan.call(lambda v: v, x)
                    sd = TStore(render(tD, fD, zone), 0)
                    d = plan.call(lambda v: v + 1, x)
                    reg.add(d, sd)
                    fresh = None if tF is None else render(tF, fF, zone)
                    try:
                        uberjob.run(plan, registry=reg, fresh_time=fresh, max_workers=1, progress=None)
                    except Exception as e:  # noqa
                        fails.append(("raised", f"run raised {type(e).__name__}: {e.__cause__!r}", (zone, tU, fU, tD, fD, tF, fF, shape)))
                        continue
                    rebuilt = sd.writes > 0
                    expect = tD < max(tU, tF if tF is not None else tU)
                    what = {"hop1": "one unstored call between U and D", "hop2": "two unstored calls between U and D", "mid": "an up-to-date stored value between U and D"}[shape]
                    if sm is not None and sm.writes:
                        fails.append((_classify(zone, fU, fD, fF, tU, tD, tF, ins) + f" ({what})", f"{what}: the up-to-date middle value was rebuilt (U={render(tU, fU, zone)!r}, M={sm.t!r}, fresh={fresh!r})",
                                      (zone, tU, fU, tD, fD, tF, fF, shape)))
                    if rebuilt != expect:
                        fails.append((_classify(zone, fU, fD, fF, tU, tD, tF, ins) + f" ({what})",
                                      f"{what}: downstream {'rebuilt' if rebuilt else 'NOT rebuilt'} but instant(D){'<' if expect else '>='}max(instant(U), instant(fresh)): "
                                      f"U={render(tU, fU, zone)!r} D={render(tD, fD, zone)!r} fresh={fresh!r}",
                                      (zone, tU, fU, tD, fD, tF, fF, shape)))
    # ---- pass with the bundled source stores upstream (ModifiedTimeSource, LiteralSource) in every form
    from uberjob.stores import LiteralSource, ModifiedTimeSource

    for tU, tD in itertools.product(ins, repeat=2):
        for fU in FORMS:
            for which in ("mts", "lit"):
                for fD in ("aware-utc", "naive-local"):
                    n += 1
                    plan = uberjob.Plan()
                    reg = uberjob.Registry()
                    when = render(tU, fU, zone)
                    u = reg.source(plan, ModifiedTimeSource(when) if which == "mts" else LiteralSource(1, when))
                    sd = TStore(render(tD, fD, zone), 0)
                    d = plan.call(lambda x: 0, u)
                    reg.add(d, sd)
                    try:
                        uberjob.run(plan, registry=reg, max_workers=1, progress=None)
                    except Exception as e:  # noqa
                        fails.append(("raised (bundled source)", f"run raised {e!r}", (zone, tU, fU, tD, fD, None, which)))
                        continue
                    rebuilt = sd.writes > 0
                    expect = tD < tU
                    if rebuilt != expect:
                        name = "ModifiedTimeSource" if which == "mts" else "LiteralSource"
                        fails.append((_classify(zone, fU, fD, None, tU, tD, None, ins) + f" ({name} upstream)",
                                      f"{name}({when!r}) upstream, downstream modified {render(tD, fD, zone)!r}: downstream {'rebuilt' if rebuilt else 'NOT rebuilt'}, "
                                      f"expected {'rebuilt' if expect else 'kept'}", (zone, tU, fU, tD, fD, None, which)))
    # ---- second pass: real file stores (their own get_modified_time in the loop), fresh_time in every form
    d0 = tempfile.mkdtemp(prefix="c18_")
    try:
        from uberjob.stores import JsonFileStore

        for tU, tD in itertools.product(ins, repeat=2):
            for tF, fF in [(None, None)] + [(t, f) for t in ins for f in FORMS]:
                n += 1
                pu, pd = os.path.join(d0, "u.json"), os.path.join(d0, "d.json")
                for p, t, v in ((pu, tU, 1), (pd, tD, 0)):
                    with open(p, "w") as fh:
                        fh.write(str(v))
                    os.utime(p, (t, t))
                plan = uberjob.Plan()
                reg = uberjob.Registry()
                # upstream alternately through JsonFileStore and through the bundled PathSource
                from uberjob.stores import PathSource
                use_path_source = (tU + tD + (tF or 0)) % 2 == 1
                u = reg.source(plan, PathSource(pu) if use_path_source else JsonFileStore(pu))
                d = plan.call((lambda x: 2) if use_path_source else (lambda x: x + 1), u)
                reg.add(d, JsonFileStore(pd))
                fresh = None if tF is None else render(tF, fF, zone)
                uberjob.run(plan, registry=reg, fresh_time=fresh, max_workers=1, progress=None)
                with open(pd) as fh:
                    rebuilt = fh.read().strip() == "2"
                expect = tD < max(tU, tF if tF is not None else tU)
                if rebuilt != expect:
                    fails.append((_classify(zone, "naive-local", "naive-local", fF, tU, tD, tF, ins) + " (file stores)",
                                  f"file stores: downstream {'rebuilt' if rebuilt else 'NOT rebuilt'}, expected {'rebuilt' if expect else 'kept'}: "
                                  f"mtime(U)={tU} mtime(D)={tD} fresh={fresh!r}", (zone, tU, "file", tD, "file", tF, fF)))
    finally:
        shutil.rmtree(d0, ignore_errors=True)
    return {"zone": zone, "n": n, "fails": fails, "outcomes": len(outcomes)}


def _classify(zone, fU, fD, fF, tU, tD, tF, ins):
    """Stable key of a failing configuration: which forms are mixed and whether the repeated hour is involved."""
    forms = {"naive" if f == "naive-local" else "aware" for f in (fU, fD, fF) if f}
    mixed = "mixed naive/aware" if len(forms) == 2 else ("all naive" if forms == {"naive"} else "all aware")
    fold = zone in TRANSITION_UTC and any(t in ins[1:5] for t in (tU, tD, tF) if t is not None)
    return f"{mixed}{', repeated hour of a DST fall-back' if fold and mixed == 'all naive' else ''}{', zone offset != 0' if zone != 'UTC' and mixed == 'mixed naive/aware' else ''}"


def run(tier):
    res = common.pmap(_zone_task, [(z, tier) for z in ZONES])
    viols = []
    n = 0
    perkey = {}
    for r in res:
        n += r["n"]
        for key, msg, cfg in r["fails"]:
            k = perkey.setdefault(key, [0, None])
            k[0] += 1
            if k[1] is None:
                k[1] = (msg, cfg, r["zone"])
    for key, (cnt, (msg, cfg, zone)) in perkey.items():
        viols.append(common.Violation(PROP, key, f"TZ={zone}: {msg} ({cnt} failing configurations with this signature)", {"engine": "E3", "cfg": list(cfg)}))
    cov = {
        "evaluations": n, "distinct_nontrivial": n,
        "zones": ZONES, "forms": FORMS,
        "rule": ("full product: process zone (TZ + tzset) x t(U), t(D) from 7 instants around the zone's DST fall-back (both sides of the repeated hour) x fresh_time in {none} + the 7 instants x the form of "
                 "each datetime (naive local with fold as datetime.fromtimestamp gives it, aware UTC, aware +09:00, aware in the process zone); the same through one / two unstored calls and through an up-to-date stored value between U and D; a pass with real JsonFileStores and os.utime; "
                 "every configuration is a distinct case; oracle: D rewritten <=> instant(D) < max(instant(U), instant(fresh_time))"),
        "samples": [{"zone": "America/New_York", "U": "naive 2021-11-07 01:30 fold=1", "D": "naive 2021-11-07 01:50 fold=0", "fresh": None, "expected": "rebuilt"}],
        "exhaustive": True,
    }
    return {"violations": viols, "coverage": cov, "level": "exploration",
            "assumptions": ["'all zones' is represented by six zones with offsets 0, -5/-4, 0/+1, +5:30, +5:45, +12/+13", "graph shapes: source -> stored call directly, through one or two unstored calls, and through an up-to-date stored value"]}


def replay(rep):
    zone = rep["cfg"][0]
    r = _zone_task((zone, "quick"))
    out = [m for k, m, cfg in r["fails"] if list(cfg) == list(rep["cfg"])]
    for m in out:
        print("ORACLE:", m)
    return out
