"""C19 - a failure is attributed to the user line that created the failing symbolic call.

E3: for every kind of symbolic call x every call-site nesting depth 0..6 (helper functions
calling helper functions; the creation runs on a raw `_thread` thread whose stack starts at the
harness entry, so that stacks shallower than, equal to and deeper than the depth limit all occur)
x both failure phases x 1-2 workers.  The expected chain is captured independently with
sys._getframe on the creating line itself.
"""
import _thread
import sys

from .. import common

PROP = "C19"
DEPTHS = range(0, 7)


def cap():
    """(name, path, line) of the caller's frames, innermost first - captured on the creating line."""
    f = sys._getframe(1)
    out = []
    while f is not None:
        out.append((f.f_code.co_name, f.f_code.co_filename, f.f_lineno))
        f = f.f_back
    return out


def nest(k, fn): return fn() if k == 0 else nest(k - 1, fn)  # noqa: E704  (one line: every level has the same line number)


def on_raw_thread(fn):
    """Run fn on a thread whose Python stack starts at `entry` (no threading bootstrap frames)."""
    box = {}
    lock = _thread.allocate_lock()
    lock.acquire()

    def entry():
        try:
            box["r"] = fn()
        except BaseException as e:  # noqa
            box["e"] = e
        finally:
            lock.release()

    _thread.start_new_thread(entry, ())
    lock.acquire()
    if "e" in box:
        raise box["e"]
    return box["r"]


class Boom(Exception):
    pass


def _boom(*a, **k):
    raise Boom("call failed")


def _unhashable():
    return [1]


def _three():
    return (1, 2, 3)


def make_store(uberjob, fail):
    class St(uberjob.ValueStore):
        def __init__(self):
            self.v = None
            self.has = fail in ("read", "mtime-present")

        def read(self):
            if fail in ("read", "readback"):
                raise Boom("read failed")
            return self.v

        def write(self, v):
            if fail == "write":
                raise Boom("write failed")
            self.v, self.has = v, True

        def get_modified_time(self):
            if fail == "mtime":
                raise Boom("mtime failed")
            import datetime as dt
            return dt.datetime(2020, 1, 1) if self.has else None

    return St()


# --- creation sites: the expected stack is captured on the creating line itself ------------------
# each returns (expected_frames, node_that_must_be_named | predicate, output, registry)

def site_call(u, plan, reg):
    e = cap(); n = plan.call(_boom)  # noqa: E702
    return e, ("is", n), n


def site_gather(u, plan, reg):
    x = plan.call(_unhashable)
    e = cap(); g = plan.gather({x})  # noqa: E702
    return e, ("is", g), g


def site_implicit_gather(u, plan, reg):
    x = plan.call(_unhashable)
    e = cap(); n = plan.call(len, {x})  # noqa: E702
    g = next(p for p in plan.graph.predecessors(n))
    return e, ("is", g), n


def site_unpack(u, plan, reg):
    x = plan.call(_three)
    e = cap(); a, b = plan.unpack(x, 2)  # noqa: E702
    t = next(p for p in plan.graph.predecessors(a))
    return e, ("is", t), a, [t, a, b]


def site_add_write(u, plan, reg):
    n = plan.call(int)
    e = cap(); reg.add(n, make_store(u, "write"))  # noqa: E702
    return e, ("fn", "write"), n


def site_add_readback(u, plan, reg):
    n = plan.call(int)
    e = cap(); reg.add(n, make_store(u, "readback"))  # noqa: E702
    return e, ("fn", "read"), n


def site_add_fresh_read(u, plan, reg):
    n = plan.call(int)  # created on another line than the one registering it
    e = cap(); reg.add(n, make_store(u, "read"))  # noqa: E702  (value already stored: the call is pruned, only the read remains)
    return e, ("fn", "read"), n


def site_add_fresh_read_dep(u, plan, reg):
    n = nest(1, lambda: plan.call(int))  # created in another helper, too
    e = cap(); reg.add(n, make_store(u, "read"))  # noqa: E702
    m = plan.call(abs, n)
    return e, ("fn", "read"), m


def site_source_read(u, plan, reg):
    e = cap(); n = reg.source(plan, make_store(u, "read"))  # noqa: E702
    return e, ("fn", "read"), n


def site_source_mtime(u, plan, reg):
    e = cap(); n = reg.source(plan, make_store(u, "mtime"))  # noqa: E702
    return e, ("is", n), n


def site_add_mtime(u, plan, reg):
    e = cap(); n = plan.call(int)  # noqa: E702
    reg.add(n, make_store(u, "mtime"))
    return e, ("is", n), n


def site_source_no_registry(u, plan, reg):
    e = cap(); n = reg.source(plan, make_store(u, "none"))  # noqa: E702
    return e, ("is", n), n, None, "noreg"


SITES = {
    "plan.call": (site_call, False),
    "plan.gather": (site_gather, False),
    "implicit gather in plan.call": (site_implicit_gather, False),
    "plan.unpack": (site_unpack, False),
    "registry.add (write fails)": (site_add_write, True),
    "registry.add (read-back fails)": (site_add_readback, True),
    "registry.add (already stored, read fails)": (site_add_fresh_read, True),
    "registry.add (already stored, read for a dependent fails)": (site_add_fresh_read_dep, True),
    "registry.source (read fails)": (site_source_read, True),
    "modified-time query of a source fails": (site_source_mtime, True),
    "modified-time query of an added node fails": (site_add_mtime, True),
    "registry.source run without registry": (site_source_no_registry, True),
}


def chain_of(stack_frame):
    from uberjob._util.traceback import TruncatedStackFrame

    out = []
    truncated = False
    sf = stack_frame
    while sf is not None:
        if sf is TruncatedStackFrame:
            truncated = True
            break
        out.append((sf.name, sf.path, sf.line))
        sf = sf.outer
    return out, truncated


def check_chain(what, stack_frame, expected, limit):
    msgs = []
    got, trunc = chain_of(stack_frame)
    want = expected[: limit + 1]
    want_trunc = len(expected) > limit + 1
    if got != want:
        first = next((i for i, (a, b) in enumerate(zip(got, want)) if a != b), min(len(got), len(want)))
        g = got[first] if first < len(got) else None
        w = want[first] if first < len(want) else None
        where = "innermost frame" if first == 0 else f"frame {first}"
        msgs.append((f"{what}: wrong {where}",
                     f"{what}: symbolic traceback {where} is {_fmt(g)}, the creating line's real stack has {_fmt(w)} there (got {len(got)} frames, expected {len(want)})"))
    if trunc != want_trunc:
        msgs.append((f"{what}: truncation marker", f"{what}: truncated={trunc} but the real stack had {len(expected)} frames (limit {limit + 1})"))
    return msgs


def _fmt(fr):
    if fr is None:
        return "<nothing>"
    import os
    return f"{os.path.basename(fr[1])}:{fr[2]} in {fr[0]}"


def check_render(what, err, expected, limit):
    msgs = []
    lines = str(err).splitlines()
    want = expected[: limit + 1]
    body = [f'  File "{p}", line {ln}, in {nm}' for nm, p, ln in reversed(want)]
    if len(expected) > limit + 1:
        body = ["  ... truncated"] + body
    try:
        i = lines.index("Symbolic traceback (most recent call last):")
    except ValueError:
        return [(f"{what}: rendering", f"{what}: message has no symbolic traceback header: {lines[:3]}")]
    if lines[i + 1:] != body:
        msgs.append((f"{what}: rendering", f"{what}: rendered frames {lines[i + 1:][:6]} differ from expected {body[:6]}"))
    return msgs


def _case(payload):
    kind, depth, W = payload[:3]
    copies = payload[3] if len(payload) > 3 else False
    import uberjob
    from uberjob._util import traceback as tb

    limit = tb.MAX_TRACEBACK_DEPTH
    fn, needs_reg = SITES[kind]
    plan = uberjob.Plan()
    reg = uberjob.Registry()
    r = on_raw_thread(lambda: nest(depth, lambda: fn(uberjob, plan, reg)))
    expected, ident, out = r[0], r[1], r[2]
    static_nodes = r[3] if len(r) > 3 and r[3] else []
    noreg = len(r) > 4
    msgs = []
    for n in static_nodes:
        msgs += check_chain(f"{kind} (node {getattr(n.fn, '__name__', n.fn)}, static)", n.stack_frame, expected, limit)
    run_plan, run_reg = (plan.copy(), reg.copy()) if copies else (plan, reg)
    if copies:
        kind = kind + " [run on Plan.copy()/Registry.copy()]"
    try:
        uberjob.run(run_plan, output=out, registry=None if (noreg or not needs_reg) else run_reg, max_workers=W, progress=None)
        msgs.append((f"{kind}: no error", f"{kind}: run did not fail"))
        return msgs, len(expected)
    except uberjob.CallError as e:
        err = e
    except Exception as e:  # noqa
        msgs.append((f"{kind}: wrong error type", f"{kind}: run raised {type(e).__name__}: {e}"))
        return msgs, len(expected)
    call = err.call
    if ident[0] == "is":
        if call is not ident[1]:
            msgs.append((f"{kind}: wrong call", f"{kind}: CallError.call is {call!r}, not the failing call {ident[1]!r}"))
    else:
        name = getattr(call.fn, "__name__", None)
        if name != ident[1]:
            msgs.append((f"{kind}: wrong call", f"{kind}: CallError.call.fn is {call.fn!r}, expected the store's {ident[1]}"))
    if not isinstance(err.__cause__, (Boom, TypeError, ValueError, uberjob.NotTransformedError)):
        msgs.append((f"{kind}: cause", f"{kind}: __cause__ is {err.__cause__!r}"))
    msgs += check_chain(kind, call.stack_frame, expected, limit)
    msgs += check_render(kind, err, expected, limit)
    return msgs, len(expected)


def _output_gather_case(payload):
    """The gather that run() builds for a container output: the user line is the uberjob.run(...) line."""
    depth, W = payload
    import uberjob
    from uberjob._util import traceback as tb

    limit = tb.MAX_TRACEBACK_DEPTH
    plan = uberjob.Plan()
    x = plan.call(_unhashable)
    box = {}

    def site():
        try:
            box["exp"] = cap(); uberjob.run(plan, output={x}, max_workers=W, progress=None)  # noqa: E702
        except uberjob.CallError as e:
            box["err"] = e

    on_raw_thread(lambda: nest(depth, site))
    kind = "output gather built by run"
    if "err" not in box:
        return [(f"{kind}: no error", "run(output={unhashable}) did not raise CallError")], 0
    err = box["err"]
    msgs = check_chain(kind, err.call.stack_frame, box["exp"], limit)
    msgs += check_render(kind, err, box["exp"], limit)
    return msgs, len(box["exp"])


def run(tier):
    cases = [(k, d, W) for k in SITES for d in DEPTHS for W in (1, 2)]
    cases += [(k, d, 1, True) for k in SITES for d in (0, 2, 5)]
    res = [_case(c) for c in cases]
    oc = [(d, W) for d in DEPTHS for W in (1, 2)]
    res2 = [_output_gather_case(c) for c in oc]
    viols = []
    depths_seen = set()
    for c, (msgs, nframes) in list(zip(cases, res)) + [(("output gather built by run",) + c, r) for c, r in zip(oc, res2)]:
        depths_seen.add(nframes)
        for key, m in msgs:
            viols.append(common.Violation(PROP, key, f"depth {c[1]} ({nframes} real frames), {c[2]} worker(s): {m}",
                                          {"engine": "E3", "kind": c[0], "depth": c[1], "W": c[2], "copies": len(c) > 3 and c[3] is True}))
    cov = {
        "evaluations": len(cases) + len(oc),
        "distinct_nontrivial": len({(c[0], c[1]) for c in cases}) + len(DEPTHS),
        "real_stack_depths_seen": sorted(depths_seen),
        "rule": ("kind of symbolic call (plan.call, explicit gather, implicit gather, unpack, registry.add write / read-back / read of an already stored value, registry.source read, modified-time query of a source / added node, "
                 "source without registry, run's output gather) x helper nesting depth 0..6 on a raw thread (real stack of 2..8 frames; limit is 4 frames + marker) x 1-2 workers; "
                 "distinct = (kind, depth)"),
        "samples": [{"kind": cases[0][0], "depth": 3, "expected_innermost": "site_call at the line holding both cap() and plan.call()"}],
        "exhaustive": True,
    }
    return {"violations": viols, "coverage": cov, "level": "exploration", "assumptions": ["operator.getitem nodes of unpack cannot fail at run time; their stack frames are checked statically"]}


def replay(rep):
    if rep["kind"] == "output gather built by run":
        msgs, _ = _output_gather_case((rep["depth"], rep["W"]))
    else:
        msgs, _ = _case((rep["kind"], rep["depth"], rep["W"], rep.get("copies", False)))
    for k, m in msgs:
        print("ORACLE:", m)
    return [m for k, m in msgs]
