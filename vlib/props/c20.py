"""C20 - bundled progress displays render every reachable state, ending with the final one.

(a) explicit-state BFS over progress states: for every set of <= 2 (thorough 3) scopes from a pool of
    awkward scope tuples, placed in one or both sections, all counter states reachable through legal
    notification sequences (totals <= 2 per scope) are reached by driving the REAL observer's
    notification methods; in every state a fresh console / HTML / IPython observer renders: it must not
    raise and the rendering must show the state's counts.
(b) E1 on the real update thread (SimpleProgressObserver.__enter__/__exit__/_run_update_thread) with shim
    threading, a fake clock and timer firings as choices: in every schedule the last emitted rendering
    reflects the final counts, the update thread survives until __exit__, and the elapsed time attributed
    to scopes adds up exactly (rational arithmetic) to the time during which something was running.
"""
import enum
import itertools
from fractions import Fraction

from .. import common, e1, e1run

PROP = "C20"
FACTORY = "vlib.props.c20:UpdHarness"


class Color(enum.Enum):
    A = 1
    B = 2


class Opaque:
    """hashable and equatable, nothing else"""

    def __init__(self, k):
        self.k = k

    def __eq__(self, o):
        return type(o) is Opaque and o.k == self.k

    def __hash__(self):
        return hash(("Opaque", self.k))

    def __repr__(self):
        return f"Opaque({self.k})"


def scope_pool():
    return [(), ("a",), ("a", 1), (1,), (None,), (1j,), (2j,), (Color.A,), (Color.B,), (frozenset({1}),), (frozenset({2}),),
            (Opaque(1),), (Opaque(2),), ("a", None), ("a", Color.A), (1.5,), (False,), (b"x",), (("t", 1),), ((1j, 2),)]


def scope_label(sc):
    return ", ".join(str(v) for v in sc)


def ref_progress_string(c, f, r, t):
    all_done = c + f == t
    started = c + f + r > 0
    s = f"{c} / {t}" if (all_done or not started) else f"({c} + {r}) / {t}"
    if f:
        s += f", {f} failed"
    return s


# --------------------------------------------------------------------------
# (a) BFS over counter states, rendering in every state
# --------------------------------------------------------------------------


def make_observer(kind, captured):
    from uberjob.progress._console_progress_observer import ConsoleProgressObserver
    from uberjob.progress._html_progress_observer import HtmlProgressObserver
    from uberjob.progress._ipython_progress_observer import IPythonProgressObserver

    kw = dict(initial_update_delay=1, min_update_interval=1, max_update_interval=10)
    if kind == "console":
        return ConsoleProgressObserver(**kw)
    if kind == "html":
        return HtmlProgressObserver(captured.append, **kw)
    return IPythonProgressObserver(**kw)


def apply_path(obs, path):
    for ev in path:
        k, sec, sc = ev[:3]
        if k == "total":
            obs.increment_total(section=sec, scope=sc, amount=ev[3])
        elif k == "running":
            obs.increment_running(section=sec, scope=sc)
        elif k == "completed":
            obs.increment_completed(section=sec, scope=sc)
        else:
            try:
                raise ValueError(f"boom in {scope_label(sc)}")
            except ValueError as e:
                obs.increment_failed(section=sec, scope=sc, exception=e)


def render_state(kind, path, counts):
    """Fresh observer, drive it along `path`, render once.  Returns None or a message."""
    captured = []
    obs = make_observer(kind, captured)
    try:
        apply_path(obs, path)
    except Exception as e:  # noqa
        return f"notification raised {type(e).__name__}: {e}"
    if kind == "ipython":
        import IPython.display as ipd

        old = ipd.display
        ipd.display = lambda *a, **k: None
    try:
        try:
            out = obs._do_render()
        except Exception as e:  # noqa
            return f"rendering raised {type(e).__name__}: {e}"
    finally:
        if kind == "ipython":
            ipd.display = old
    if kind == "console":
        text = out
    elif kind == "html":
        text = out.decode()
    else:
        text = "\n".join(str(getattr(w, "value", "")) for w in obs._widget_cache.values())
    import html as _html

    for (sec, sc), (c, f, r, t) in counts.items():
        ps = ref_progress_string(c, f, r, t)
        if kind == "html":
            ps_c = _html.escape(ps.split(",")[0])
        else:
            ps_c = ps
        if ps_c not in text:
            return f"rendering does not show the counts {ps!r} of scope ({scope_label(sc)}) in section {sec}"
        if kind == "html" and f and f"{f} failed" not in text:
            return f"rendering does not show {f} failed for scope ({scope_label(sc)})"
    return None


def bfs_states(keys, max_total):
    """All counter states reachable by legal notification sequences over `keys` [(section, scope)...],
    each with one representative path.  Legal = totals first (per key), running <= total - done."""
    init = tuple((0, 0, 0, 0) for _ in keys)  # (completed, failed, running, total)
    seen = {init: []}
    frontier = [init]
    trans = 0
    while frontier:
        st = frontier.pop(0)
        path = seen[st]
        for i, (c, f, r, t) in enumerate(st):
            sec, sc = keys[i]
            nxt = []
            if c + f + r == 0 and t < max_total:
                for amt in (1, 2):
                    if t + amt <= max_total:
                        nxt.append((("total", sec, sc, amt), (c, f, r, t + amt)))
            if t and c + f + r < t:
                nxt.append((("running", sec, sc), (c, f, r + 1, t)))
            if r:
                nxt.append((("completed", sec, sc), (c + 1, f, r - 1, t)))
                nxt.append((("failed", sec, sc), (c, f + 1, r - 1, t)))
            for ev, new in nxt:
                trans += 1
                s2 = st[:i] + (new,) + st[i + 1:]
                if s2 not in seen:
                    seen[s2] = path + [ev]
                    frontier.append(s2)
    return seen, trans


def _render_task(payload):
    idxs, placement, max_total = payload
    pool = scope_pool()
    scopes = [pool[i] for i in idxs]
    if placement == "run":
        keys = [("run", sc) for sc in scopes]
    elif placement == "stale":
        keys = [("stale", sc) for sc in scopes]
    else:
        keys = [("stale", scopes[0])] + [("run", sc) for sc in scopes[1:]] + [("run", scopes[0])]
    seen, trans = bfs_states(keys, max_total)
    fails = []
    renders = 0
    for st, path in seen.items():
        counts = {keys[i]: st[i] for i in range(len(keys)) if st[i][3]}
        if not counts:
            continue
        for kind in ("console", "html", "ipython"):
            renders += 1
            m = render_state(kind, path, counts)
            if m:
                fails.append((kind, m, [scope_label(s) for s in scopes], len(path)))
        if len(fails) > 30:
            break
    return {"states": len(seen), "transitions": trans, "renders": renders, "fails": fails[:6], "nfails": len(fails)}


# --------------------------------------------------------------------------
# (b) the update thread under E1
# --------------------------------------------------------------------------


class FakeTime:
    def __init__(self):
        self.t = Fraction(1000)

    def time(self):
        return self.t


SEQS = {
    "one-scope": [("total", "run", ("a",), 2), ("running", "run", ("a",)), ("completed", "run", ("a",)), ("running", "run", ("a",)), ("completed", "run", ("a",))],
    "two-sections-fail": [("total", "stale", ("s",), 1), ("running", "stale", ("s",)), ("completed", "stale", ("s",)),
                          ("total", "run", ("a",), 1), ("total", "run", ("b", 1), 1), ("running", "run", ("a",)), ("running", "run", ("b", 1)),
                          ("failed", "run", ("a",)), ("completed", "run", ("b", 1))],
    "overlap-3": [("total", "run", ("x",), 2), ("total", "run", ("y",), 1), ("running", "run", ("x",)), ("running", "run", ("y",)), ("running", "run", ("x",)),
                  ("completed", "run", ("y",)), ("completed", "run", ("x",)), ("completed", "run", ("x",))],
    # more failures than the observer retains exceptions for (the harness lowers the cap from 128 to 2)
    "failures-beyond-cap": [("total", "run", ("a",), 5)] + [ev for _ in range(5) for ev in (("running", "run", ("a",)), ("failed", "run", ("a",)))],
    "nothing": [],
    "unfinished": [("total", "run", ("a",), 2), ("running", "run", ("a",)), ("completed", "run", ("a",))],
}


class UpdHarness(e1.Harness):
    horizon = 6000
    bc = True

    def __init__(self, cfg):
        import uberjob.progress._simple_progress_observer as spo

        self.cfg = cfg
        self.spo = spo
        spo.threading = e1.shim_threading

    def setup(self, s):
        clock = FakeTime()
        self.spo.time = clock
        return {"clock": clock, "outputs": [], "busy": Fraction(0)}

    def body(self, ctx):
        s = e1.sched()
        clock = ctx["clock"]
        outs = ctx["outputs"]
        kind = self.cfg["kind"]
        if kind == "console":
            from uberjob.progress._console_progress_observer import ConsoleProgressObserver

            class Obs(ConsoleProgressObserver):
                def _output(self_, value):
                    outs.append((clock.t, value))
                    e1.hpoint("output")
            obs = Obs(initial_update_delay=1, min_update_interval=1, max_update_interval=5)
        else:
            from uberjob.progress._html_progress_observer import HtmlProgressObserver

            def sink(b):
                outs.append((clock.t, b.decode()))
                e1.hpoint("output")
            obs = HtmlProgressObserver(sink, initial_update_delay=1, min_update_interval=1, max_update_interval=5)
        ctx["obs"] = obs
        if self.cfg["seq"] == "failures-beyond-cap":
            obs._max_exception_count = 2
        running = 0
        steps = [Fraction(1, 3), Fraction(1, 2), Fraction(2), Fraction(1, 7)]
        try:
            obs.__enter__()
            ctx["thread"] = obs._thread
            for k, ev in enumerate(SEQS[self.cfg["seq"]]):
                dt_ = steps[k % len(steps)]
                clock.t += dt_
                if running:
                    ctx["busy"] += dt_
                e1.hpoint(("notify", k))
                kk, sec, sc = ev[:3]
                if kk == "total":
                    obs.increment_total(section=sec, scope=sc, amount=ev[3])
                elif kk == "running":
                    obs.increment_running(section=sec, scope=sc)
                    running += 1
                elif kk == "completed":
                    obs.increment_completed(section=sec, scope=sc)
                    running -= 1
                else:
                    obs.increment_failed(section=sec, scope=sc, exception=ValueError("x"))
                    running -= 1
            ctx["running_at_exit"] = running
            ctx["alive_before_exit"] = ctx["thread"].is_alive()
            clock.t += Fraction(1, 5)
            if running:
                ctx["busy_exit"] = Fraction(1, 5)
        finally:
            obs.__exit__(None, None, None)
        s.log("EXIT")
        return None

    def check(self, x):
        s = x.sched
        ctx = x.ctx
        msgs = []
        okey = (x.status, len(ctx.get("outputs", ())))
        if x.status != "ok":
            msgs.append(("C20", f"{x.status} while the display was running: {s.deadlock_info}"))
            return msgs, okey
        if s.uncaught:
            msgs.append(("C20", f"the update thread died: {s.uncaught}"))
        mr = s.main_result
        if mr and mr[0] == "exc":
            msgs.append(("C20", f"observer raised {mr[1]!r}"))
            return msgs, okey
        if not ctx.get("alive_before_exit", True):
            msgs.append(("C20", "the update thread was not alive any more before __exit__"))
        obs = ctx["obs"]
        # final counts from the notifications themselves
        final = {}
        for ev in SEQS[self.cfg["seq"]]:
            k, sec, sc = ev[:3]
            c, f, r, t = final.get((sec, sc), (0, 0, 0, 0))
            if k == "total":
                t += ev[3]
            elif k == "running":
                r += 1
            elif k == "completed":
                c, r = c + 1, r - 1
            else:
                f, r = f + 1, r - 1
            final[(sec, sc)] = (c, f, r, t)
        outs = [o for _, o in ctx["outputs"]]
        if final and not outs:
            msgs.append(("C20", "nothing was ever rendered"))
        import html as _html

        for sec in {k[0] for k in final}:
            marker = f"{sec}:" if self.cfg["kind"] == "console" else {"stale": "Determining stale value stores", "run": "Running graph"}[sec]
            mention = [o for o in outs if marker in o]
            if not mention:
                msgs.append(("C20", f"section {sec} never appeared in any rendering"))
                continue
            last = mention[-1]
            for (s2, sc), (c, f, r, t) in final.items():
                if s2 != sec:
                    continue
                ps = ref_progress_string(c, f, r, t)
                probe = ps if self.cfg["kind"] == "console" else _html.escape(ps.split(",")[0])
                if probe not in last:
                    msgs.append(("C20", f"the last rendering that shows section {sec} does not reflect the final counts {ps!r} of scope ({scope_label(sc)})"))
        if outs and self.cfg["kind"] == "html":
            # html renders everything every time: the very last rendering must be complete
            last = outs[-1]
            for (sec, sc), (c, f, r, t) in final.items():
                if _html.escape(ref_progress_string(c, f, r, t).split(",")[0]) not in last:
                    msgs.append(("C20", f"the very last rendering does not reflect the final counts of ({scope_label(sc)})"))
        # elapsed accounting: exact
        total_w = sum((st.weighted_elapsed for m in obs._state.section_scope_mapping.values() for st in m.values()), Fraction(0))
        busy = ctx["busy"]
        if ctx.get("running_at_exit"):
            # something still running at exit: time up to the last update_weighted_elapsed call is accounted
            if total_w < busy or total_w > busy + ctx.get("busy_exit", 0):
                msgs.append(("C20", f"elapsed attributed to scopes {total_w} is outside [{busy}, {busy + ctx.get('busy_exit', 0)}]"))
        elif total_w != busy:
            msgs.append(("C20", f"elapsed time attributed to scopes adds up to {total_w}, but something was running for exactly {busy}"))
        return msgs, okey


def install_points():
    import uberjob.progress._simple_progress_observer as spo

    return e1.install_bc([spo.SimpleProgressObserver._do_render, spo.SimpleProgressObserver._run_update_thread,
                          spo.SimpleProgressObserver.__exit__, spo.SimpleProgressObserver.__enter__], mode="shared")


def run(tier):
    pool = scope_pool()
    n = len(pool)
    payloads = []
    for i in range(n):
        payloads.append(((i,), "run", 2))
        payloads.append(((i,), "both", 2))
    for i, j in itertools.combinations(range(n), 2):
        payloads.append(((i, j), "run", 2))
        if tier != "quick" or (i + j) % 3 == 0:
            payloads.append(((i, j), "both", 2 if (tier != "quick" and 4 <= i <= 13 and 4 <= j <= 13) else 1))
            payloads.append(((i, j), "stale", 1))
    if tier != "quick":
        # triples over the scopes whose values cannot be ordered or mix types (indices 4..13 of the pool)
        for tri in itertools.combinations(range(4, 14), 3):
            payloads.append((tri, "run", 1))
    res = common.pmap(_render_task, payloads, chunksize=2)
    viols = []
    states = sum(r["states"] for r in res)
    trans = sum(r["transitions"] for r in res)
    renders = sum(r["renders"] for r in res)
    for p, r in zip(payloads, res):
        for kind, m, scopes, depth in r["fails"]:
            cls = m.split(":")[0]
            types = sorted({type(v).__name__ for i in p[0] for v in pool[i]})
            key = f"render {cls} :: scope value types {types}" if "raised" in m else f"render {kind} :: {m[:60]}"
            viols.append(common.Violation(PROP, key, f"{kind} observer, scopes {scopes} in section(s) '{p[1]}', state reached after {depth} notifications: {m}",
                                          {"engine": "BFS", "scopes": list(p[0]), "placement": p[1], "max_total": p[2]}))
    install_points()
    cfgs = [{"kind": k, "seq": sname} for k in ("console", "html") for sname in SEQS]
    budget = {"preempt": 1, "timer": 2, "yield": 1} if tier == "quick" else {"preempt": 2, "timer": 3, "yield": 2}
    agg = e1run.explore(FACTORY, cfgs, budget)
    v2, notes = e1run.to_violations(PROP, agg, FACTORY, budget)
    viols += v2
    cov = {
        "states": states, "transitions": trans, "traces_validated_against_impl": renders + agg["executions"],
        "renderings_checked": renders, "scope_pool": [scope_label(s) or "()" for s in pool],
        "e1_configs": agg["configs"], "e1_executions": agg["executions"], "e1_schedule_tree_nodes": agg["tree_nodes"], "e1_budget": budget, "e1_capped": agg["capped"],
        "samples": [{"scopes": ["1j", "2j"], "placement": "run", "state": "total 2, 1 running, 1 completed / total 1, 1 failed"},
                    {"update_thread": "console", "sequence": "two-sections-fail", "timer_firings": 2}],
        "exhaustive": not agg["capped"],
        "rule": ("(a) for every set of <= 2 (thorough 3) scopes out of a pool of 20 awkward scope tuples (unorderable values of one type: complex, Enum, frozenset, opaque objects; mixed types; None; bool/bytes/nested tuples), in the run section, the stale section or both: "
                 "BFS over all counter states reachable by legal notification sequences with totals <= 2, driving the real observers' notification methods; in every state a fresh console, HTML and IPython observer renders and the rendering must show the state's counts; "
                 "states/transitions count counter states and legal notifications; (b) E1 over the real update thread with fake clock: all schedules with the stated preemption / timer-firing budget for 5 notification sequences x {console, html}"),
    }
    return {"violations": viols, "notes": notes, "coverage": cov, "level": "model_checking",
            "assumptions": ["IPython observer is exercised outside a notebook (display captured)", "wall-clock time is a fake rational clock advanced by the notifying thread",
                            "E1 trusted base as for C01 (shim threading)"]}


def replay(rep):
    if rep.get("engine") == "E1":
        install_points()
        return [m for t, m in e1run.replay(rep) if t == PROP]
    r = _render_task((tuple(rep["scopes"]), rep["placement"], rep["max_total"]))
    for f in r["fails"]:
        print("ORACLE:", f)
    return [f[1] for f in r["fails"]]
